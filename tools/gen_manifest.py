#!/usr/bin/env python3
"""Regenerate /verif/MANIFEST.json from the property modules that exist.

A property is claimed iff vmon/props/<id>.py exists; every other property is listed under
not_applicable with the reason given in NOT_BUILT (kept current by hand).
"""
import json
import sys
from pathlib import Path

ROOT = Path(__file__).resolve().parent.parent

LEVEL = {
    "C01": ("post-condition monitor on locate_droplets/get_phasefield with generator-supplied ground truth and an independent covered-cell oracle (own periodic metric, closed-form cell volumes)",
            "Held on every generated execution (thousands per quick run, ~1e5 thorough) over all four grid families, all periodicity masks, anisotropic spacings, offsets, boundary- and corner-straddling droplets; says nothing about grids larger than the bounds in DESIGN 5/C01."),
    "C02": ("input-agnostic post-condition monitor on locate_droplets_in_mask against a flood fill on the universal cover of the periodic grid; exhaustive enumeration of small images; thorough tier also runs the repository's own tests under the monitor",
            "Every binary image on the listed small grids (all periodicity masks) is enumerated completely, larger ones randomly/structurally; winding components are checked for volume only."),
    "C03": ("post-condition monitor on get_phase_field/get_phasefield against an independent inside/outside oracle (own metric, own harmonic series) plus roll/permutation metamorphic relations",
            "All five classes x grid families x width kinds on generated droplets; knife-edge cells are skipped."),
    "C04": ("least_squares observer (dispatcher bound onto scipy.optimize before the package is imported) recording start/end cost + post-condition monitor on refine_droplet with independent recomputation of the deviation over the specified fit region",
            "Cost (up to one constant factor of units), bounds, constrained coordinates, wrapping, image digest checked on every generated fit, incl. candidates of any provenance, preceding calls with other options, worker processes; self-render clause only when the start residual is numerically zero."),
    "C05": ("post-condition monitor on locate_droplets(refine=True) with generator-supplied ground truth under the statement's preconditions",
            "Recovery error < 1e-4 on every generated field; 'automatic levels without fitting' is not claimed by the statement."),
    "C06": ("offline checker over recorded tracking histories with unique droplet identities (conservation, exactly-once, ordering, gap-freeness); exhaustive lattice histories, exact-tie lattice family, repository tests under the monitor (thorough)",
            "Partition clause on all histories (members of any class, twins identified by multiplicity); stronger clauses only when frames are overlap-free; near-ties excluded, exact ties on dyadic lattices decided."),
    "C07": ("reference matcher written from the statement compared as link sets over the recorded histories (own periodic metric)",
            "Knife-edge distances/overlaps excluded by the generators; closest-pair clause only for pairwise distinct distances."),
    "C08": ("paired to_file/from_file monitor comparing a structural snapshot (classes, parameter bytes, times) taken before writing (fresh and overwritten paths); repository tests under the monitor (thorough)",
            "HDF5/h5py trusted; hostile mixed collections may raise but must not read back different."),
    "C09": ("exception-recording wrappers on all public entry points + finiteness post-condition under a fuzz workload; documented errors are a closed list",
            "Held on the generated valid inputs; every escaping exception is attributed to its call."),
    "C10": ("snapshot/ensure contracts on remove_overlapping and post-conditions on the distance queries against the oracle's own metric; exhaustive lattice emulsions, exact-tie family, repeated queries (history independence, caller-owned results)",
            "Exhaustive on small lattices with tied radii, random otherwise; near-ties excluded, exact ties on dyadic lattices decided by the strict wording."),
    "C11": ("post-condition monitor on merge and _merge_data (python, in-place, jitted under NUMBA_BOUNDSCHECK) against volume/centre-of-mass conservation; operands of any provenance (pickled, copied, linked, returned by the image analysis), aliased outputs",
            "Numeric over >= 6 decades; the symbolic quantifier is out of reach of executions."),
    "C12": ("differential monitor over all conversion variants (scalar, array, compiled, nd-compiled, py-pde) + round trips + derivative relation",
            "30 orders of magnitude sampled; symbolic quantifier out of reach."),
    "C13": ("post-condition monitor on perturbed-droplet shape quantities against independent quadrature and exact curvature from the oracle's own series",
            "First-order agreement tested at amplitude scale 1e-4 with an explicit second-order allowance."),
    "C14": ("history monitor on tracker.handle/locate_droplets/append vs offline from_storage over the same fields; real solver runs",
            "Direct and solver-driven histories, bounded length."),
    "C15": ("delay-injecting event-logging wrapper in worker processes forcing completion orders; bitwise comparison with the serial result; repeat/history-independence/caller-owned-results monitors on every deterministic entry point",
            "Observed completion permutations are reported; fewer than 3 distinct non-identity permutations => inconclusive."),
    "C16": ("post-condition monitor on get_structure_factor against a dense DFT reference, Parseval and metamorphic invariances",
            "d=1..3, even/odd shapes, anisotropic spacing."),
    "C17": ("metamorphic monitor on get_length_scale (stretch, scale, roll) + plane-wave ground truth",
            "Peak method with default smoothing is checked on dx <= 1/sqrt(N) only (known finding ls-peak-bracket)."),
    "C18": ("differential monitor: locate_droplets vs locate_droplets_in_mask(f > tau) with tau observed/recomputed, Otsu optimality oracle, exact affine maps",
            "Dyadic data so affine maps are exact."),
    "C19": ("complete enumeration of request configurations with a class/shape post-condition on locate_droplets",
            "Finite configuration space enumerated completely (field content sampled)."),
    "C20": ("lock-step list reference model + icontract invariants on Emulsion/EmulsionTimeCourse/DropletTrack over exhaustive short and random long operation sequences; repository tests under the invariants (thorough)",
            "Aliasing probed by mutation; merge of members only for spherical/diffuse droplets."),
}

NOT_BUILT = "check not yet built (work in progress in this session; design in DESIGN.md section 5)"


def main():
    props = [json.loads(l) for l in (ROOT / "properties.jsonl").read_text().splitlines() if l.strip()]
    checks, na = [], []
    for p in props:
        pid = p["id"]
        if (ROOT / "vmon" / "props" / f"{pid.lower()}.py").exists():
            tech, note = LEVEL[pid]
            checks.append({
                "property_id": pid,
                "quick_cmd": f"./check {pid} --tier quick",
                "thorough_cmd": f"./check {pid} --tier thorough",
                "evidence_file": f"/verif/evidence/{pid}.json",
                "replay_cmd_template": f"./check {pid} --replay {{path}}",
                "engine": "vmon",
                "level_claimed": {
                    "category": "exploration",
                    "text": ("Runtime monitoring: the real code is executed on generated/enumerated "
                             "workloads and a deterministic oracle judges every execution. " + note),
                    "design_ref": f"DESIGN.md section 5, {pid}",
                },
                "level_note": ("Trusted: CPython, numpy, scipy, h5py, py-pde grid geometry (not its "
                               "periodic metric). Held-on-observed only; bounds as in DESIGN.md."),
                "technique": "runtime monitoring: " + tech,
            })
        else:
            na.append({"property_id": pid, "reason": NOT_BUILT})
    manifest = {
        "version": 1,
        "setup_cmd": "./setup.sh",
        "hooks": {
            "guard": "PY_DROPLETS_VERIF",
            "enable": ("none needed: all monitors attach from the harness by rebinding module "
                       "attributes of the imported package (no source hooks in /repo)"),
            "baseline_off_cmd": ("cd /repo && /venv/bin/python -m pytest -ra -q -p no:cacheprovider "
                                 "--timeout=900 --continue-on-collection-errors"),
            "source_commits": [],
            "add_only": True,
        },
        "engines": [{
            "name": "vmon",
            "path": "/verif/vmon",
            "serves_properties": [c["property_id"] for c in checks],
            "kind_free_text": ("runtime monitors (post-condition wrappers, reference models, offline "
                               "history checkers, icontract invariants, sys.monitoring line probes) "
                               "driven by seeded/enumerated workloads in sharded subprocesses"),
        }],
        "checks": checks,
        "notes": ("Repository defects found by these checks were repaired with unguarded 'fix:' commits "
                  "in /repo or are listed in /verif/known_findings.json; see DESIGN.md section 7."),
        "not_applicable": na,
    }
    (ROOT / "MANIFEST.json").write_text(json.dumps(manifest, indent=1) + "\n")
    print(f"MANIFEST: {len(checks)} checks, {len(na)} not claimed")


if __name__ == "__main__":
    sys.exit(main())
