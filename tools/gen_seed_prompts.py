#!/venv/bin/python
"""tools/gen_seed_prompts.py <round> <template prompt of an earlier round for C12> <outdir>
Prompts for a further round of independently seeded changes: the text of one property, a scratch worktree,
and the summaries of all earlier changes for that property (so that different mechanisms are looked for)."""
import glob
import json
import re
import sys

rnd, template, outdir = sys.argv[1], open(sys.argv[2]).read(), sys.argv[3]
props = {json.loads(l)["id"]: json.loads(l) for l in open("/verif/properties.jsonl")}
head, rest = template.split("This semantic property of the library is supposed to hold:")
_, tail = rest.split("Many changes are already known", 1)
tail = "Many changes are already known" + tail
old_round = re.search(r"/tmp/wt/R(\d)C12", template).group(1)
for pid, p in props.items():
    known = []
    for d in sorted(glob.glob(f"/verif/seeded/{pid}_*"), key=lambda x: int(x.rsplit("_", 1)[1])):
        m = json.load(open(d + "/meta.json"))
        known.append(f"  - {m['summary'][:300]}  [needs: {m['needs'][:160]}]")
    text = (head + "This semantic property of the library is supposed to hold:\n\n"
            f"PROPERTY {pid} - {p['title']}\n{p['statement']}\n\n"
            "In earlier rounds other people already produced the following property-breaking changes. They are KNOWN - do NOT "
            "repeat them or close variants of them (same function + same kind of slip); find genuinely different ones:\n"
            + "\n".join(known) + "\n\n" + tail)
    text = text.replace(f"R{old_round}C12", f"R{rnd}{pid}").replace(f"wtout{old_round}/C12", f"wtout{rnd}/{pid}")
    text = text.replace('"property": "C12"', f'"property": "{pid}"').replace("C12_k", f"{pid}_k")
    open(f"{outdir}/R{rnd}{pid}.txt", "w").write(text)
    print(pid, len(text))
