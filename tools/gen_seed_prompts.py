#!/venv/bin/python
"""tools/gen_seed_prompts.py <round> <outdir>
Writes one prompt per property for a further round of independently seeded property-breaking changes. A prompt
holds the text of one property, the path of the agent's own scratch worktree, and the summaries of all earlier
changes for that property (so that different mechanisms are looked for) - nothing else from /verif.
Worktrees: git -C /repo worktree add --detach /tmp/wt/R<round><PID> HEAD ; results go to /tmp/wtout<round>/<PID>/<PID>_k/."""
import glob
import json
import sys

rnd, outdir = sys.argv[1], sys.argv[2]
props = {json.loads(l)["id"]: json.loads(l) for l in open("/verif/properties.jsonl")}

TEMPLATE = """You are helping to evaluate a verification effort for the open-source Python library py-droplets
(zwicker-group/py-droplets: droplets and emulsions, locating them in phase-field images, tracking them over time).
Your job is to play the adversary: write realistic code changes to the library that BREAK one stated semantic
property while everything still looks fine to its existing test suite.

Your private scratch checkout (a git worktree, already created, yours alone) is: {wt}
Work ONLY inside {wt} and your output directory {out} (create it). Never read, list or modify anything under
/repo or /verif, and do not look at other directories under /tmp/wt or /tmp/wtout*. The interpreter is
/venv/bin/python (numpy, scipy, numba, h5py, py-pde installed; no network). To make Python import YOUR checkout, run
things with the environment variable PYTHONPATH={wt} from inside {wt}, and verify with
`PYTHONPATH={wt} /venv/bin/python -c "import droplets; print(droplets.__file__)"` that the path printed is under {wt}.

This semantic property of the library is supposed to hold:

PROPERTY {pid} - {title}
{statement}

{known_block}
Never use `git stash` (the stash is shared by all worktrees of the repository, and other people work in sibling worktrees):
to get back to a clean tree save your change with `git -C {wt} diff > file`, run `git -C {wt} checkout -- .`, and re-apply it
with `git -C {wt} apply file`.

Produce THREE changes (k = 1, 2, 3), each made independently on a clean tree (`git -C {wt} checkout -- .` between
them), each with a genuinely different mechanism. Every change must satisfy ALL of the following:

1. It breaks the property above for some input / configuration / sequence of calls (the library really returns a wrong
   result, raises where it must not, or fails to raise - not merely a changed message or a slower path).
2. The library still imports and the COMPLETE existing test suite still passes with the change:
   `cd {wt} && PYTHONPATH={wt} /venv/bin/python -m pytest -q -x -p no:cacheprovider --timeout=900` must report
   112 passed (it takes 30-60 s; run it for every change, and do not edit, skip or delete tests).
3. It needs something SPECIFIC to manifest, so that ordinary use does not expose it at once: an unusual but valid input
   (odd sizes, exact ties or zeros, negative or huge values, other dtypes or container types, non-contiguous arrays,
   grids that do not start at 0, strongly anisotropic cells, a rarely used option or combination of options), a
   multi-step sequence of operations (state left behind by an earlier call, an object that went through copy / pickle /
   file IO / a worker process, a collection edited in a particular order), a particular completion order of worker
   processes, or two cooperating sites in different functions or modules that each look fine alone. Further ideas:
   the interplay of two public entry points (a tracker and file IO, a time course and the tracker list built from it),
   rarely used public functions, options and properties that the statement still covers, sheer size (many droplets,
   frames, modes or cells - quadratic shortcuts, chunking, recursion limits, 32-bit counters), extreme magnitudes
   (lengths, times or intensities of order 1e-9 or 1e9, denormal or huge contrasts), aliasing between arguments and
   results (the same object passed twice, a result fed back in, views into one array), iterators and generators instead
   of lists, subclasses of the library's classes defined by the user, and behaviour that depends on the order in which
   otherwise independent calls are made within one process.
4. It is realistic: it should read like a plausible refactoring, optimisation, clean-up or well-meant "bug fix" that a
   maintainer could accept in review (give it an innocent justification in a code comment if that helps). No sabotage
   that checks for magic values, no randomness, no dependence on environment variables, time or process ids.
5. It touches only files under {wt}/droplets/ (not tests, not examples, not docs).

For each change k write into {out}/{pid}_k/ :
  - patch.diff : output of `git -C {wt} diff` for that change alone (paths relative to the repository root, applicable
    with `git apply` to a clean tree);
  - demo.py : a small self-contained program that imports `droplets` through PYTHONPATH (do not hard-code a path), exits
    with status 0 on the UNCHANGED tree and with a non-zero status (failed assertion with a clear message) WITH the
    change. It must check the property itself (what a user relies on), not an implementation detail, must be
    deterministic and finish within a minute. Run it both ways yourself:
    `cd {wt} && PYTHONPATH={wt} /venv/bin/python {out}/{pid}_k/demo.py; echo $?` with the change applied and after
    `git checkout -- .`;
  - meta.json : {{"property": "{pid}", "summary": "<what was changed, where, and the innocent justification>",
    "needs": "<what exactly is needed for the breakage to manifest, and what stays unaffected (why the tests pass)>",
    "files": ["droplets/..."], "tests_pass_with_change": true, "demo_fails_with_change": true,
    "demo_passes_without_change": true}}  (fill the three booleans with what you actually observed).

Leave the worktree clean at the end (`git -C {wt} checkout -- .`; remove files you created there). Finish with a short
report: for each k one line with the file/function changed, the mechanism, and what it needs to manifest; say plainly
if you could not produce three changes that meet all requirements (fewer good ones are better than padded ones).
"""

KNOWN_HEAD = ("In earlier rounds other people already produced the following property-breaking changes. They are KNOWN - "
              "do NOT repeat them or close variants of them (same function + same kind of slip); find genuinely "
              "different mechanisms, other functions, other kinds of input or history:\n")

for pid, p in props.items():
    known = []
    for d in sorted(glob.glob(f"/verif/seeded/{pid}_*"), key=lambda x: int(x.rsplit("_", 1)[1])):
        m = json.load(open(d + "/meta.json"))
        known.append(f"  - {m['summary'][:280]}  [needs: {m['needs'][:140]}]")
    known_block = (KNOWN_HEAD + "\n".join(known) + "\n") if known else ""
    text = TEMPLATE.format(wt=f"/tmp/wt/R{rnd}{pid}", out=f"/tmp/wtout{rnd}/{pid}", pid=pid, title=p["title"],
                           statement=p["statement"], known_block=known_block)
    open(f"{outdir}/R{rnd}{pid}.txt", "w").write(text)
    print(pid, len(text))
