#!/usr/bin/env python3
"""Cross table from seeded/MATRIX.log: for every seeded change the checks (quick tier, seed 0) that report a VIOLATION."""
import collections
import os
import re

root = os.path.dirname(os.path.dirname(os.path.abspath(__file__)))
rows = collections.OrderedDict()
for line in open(os.path.join(root, "seeded", "MATRIX.log")):
    m = re.match(r"MATRIX (\S+) (C\d\d) rc=(\S+)", line)
    if m:
        rows.setdefault(m.group(1), {})[m.group(2)] = m.group(3)
print("| change | checks run | report a VIOLATION | silent |")
print("|---|---|---|---|")
key = lambda s: (s.split("_")[0], int(s.split("_")[1]))
for sid in sorted(rows, key=key):
    r = rows[sid]
    hit = [c for c in sorted(r) if r[c] == "1"]
    other = [f"{c}(rc={r[c]})" for c in sorted(r) if r[c] not in ("0", "1")]
    silent = [c for c in sorted(r) if r[c] == "0"]
    print(f"| {sid} | {len(r)} | {' '.join(hit) or '-'} {' '.join(other)} | {' '.join(silent) or '-'} |")
