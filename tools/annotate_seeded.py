#!/usr/bin/env python3
"""Annotations of seeded changes that their own check does not (or need not) catch; idempotent."""
import json
import os

root = os.path.dirname(os.path.dirname(os.path.abspath(__file__)))
SIBLING = {"C08_15": "C14", "C12_15": "C13", "C18_14": "C14", "C01_18": "C02", "C05_18": "C18", "C18_17": "C15", "C12_16": "C13"}
DELIBERATE = {"C03_7": "needs vmin > vmax", "C07_9": "repeated time stamps in consecutive frames", "C03_14": "round-off knife-edge",
              "C13_14": "negative interface distance", "C04_18": "subnormal contrast", "C10_17": "round-off knife-edge",
              "C13_18": "more than 120 amplitudes (minutes per volume)"}
NOTE = {"C05_14": "neutralised by the repair cd97c8d (the fit region now extends by 1 + int(2 w / h) cells, i.e. at least two interface "
                  "widths, so the new radius bound only binds for thresholds above 0.98 of the contrast): the demonstration passes with the "
                  "change on the repaired tree; kept for the record, not counted",
        "C12_13": "neutralised by the repair 5b90216 (the dimension-generic compiled volume conversion now returns floats in one "
                  "dimension too, so delegating the specialised variants to it no longer fails for integer arrays): the demonstration "
                  "passes with the change on the repaired tree; kept for the record, not counted"}
for table, key in ((SIBLING, "caught_by_sibling_check"), (DELIBERATE, "not_covered_deliberately"), (NOTE, "status_note")):
    for sid, val in table.items():
        p = os.path.join(root, "seeded", sid, "meta.json")
        m = json.load(open(p))
        if m.get(key) != val:
            m[key] = val
            json.dump(m, open(p, "w"), indent=2)
            print("annotated", sid, key)
