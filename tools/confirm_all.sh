#!/bin/bash
# tools/confirm_all.sh <srcroot> [ids...] : confirm every seeded change under <srcroot>/<ID>/ that is not yet in seeded/
# (runs up to CONFIRM_JOBS confirmations concurrently; each in its own scratch copy of /repo)
cd "$(dirname "$(dirname "$(readlink -f "$0")")")"
SRC="$1"; shift
JOBS=${CONFIRM_JOBS:-3}
list=()
if [ $# -gt 0 ]; then for i in "$@"; do list+=("$i"); done
else for d in "$SRC"/*/*_[0-9]*; do [ -f "$d/patch.diff" ] && list+=("$(basename "$d")"); done; fi
for id in "${list[@]}"; do
  prop=${id%%_*}
  [ -f "seeded/$id/confirm.json" ] && continue
  while [ "$(jobs -r | wc -l)" -ge "$JOBS" ]; do sleep 2; done
  ( DETECT=1 tools/confirm_seeded.sh "$SRC/$prop/$id" "seeded/$id" ) &
done
wait
