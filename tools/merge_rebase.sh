#!/bin/bash
# tools/merge_rebase.sh <patch.diff> <base commit of /repo the patch applies to>: re-create a stale patch by a 3-way
# merge (base = that commit, ours = current /repo HEAD, theirs = base + patch); writes the diff HEAD..merge back.
set -e
P="$(readlink -f "$1")"; BASE="$2"
W=$(mktemp -d /tmp/mr_XXXXXX); trap 'rm -rf "$W"' EXIT
git -C /repo archive "$BASE" | (mkdir -p "$W/r" && tar -x -C "$W/r")
cd "$W/r"; git init -q .; git add -A >/dev/null; git -c user.email=a@b -c user.name=x commit -qm base; git branch -q base
git apply "$P"; git -c user.email=a@b -c user.name=x commit -qam theirs; git branch -q theirs
git checkout -q base; git checkout -q -b ours
git -C /repo archive HEAD | tar -x -C "$W/r"; git add -A >/dev/null; git -c user.email=a@b -c user.name=x commit -qm ours
if ! git -c user.email=a@b -c user.name=x merge -q --no-edit theirs >/dev/null 2>&1; then echo "MERGE CONFLICT"; if [ -n "$KEEP" ]; then trap - EXIT; echo "kept $W/r"; fi; exit 1; fi
git diff ours HEAD > "$W/new.diff"; [ -s "$W/new.diff" ]
( cd /repo && git apply --check "$W/new.diff" )
cp "$P" "$P.pre-$(git -C /repo rev-parse --short HEAD)"; cp "$W/new.diff" "$P"
echo "merge-rebased $P ($(grep -c '^@@' "$P") hunks)"
