#!/bin/bash
# tools/confirm_seeded.sh <dir with patch.diff demo.py meta.json> <out dir>
# Confirms a seeded change in a scratch copy of /repo (never /repo itself):
#   1. the patch applies, 2. the repository's full test suite passes with it,
#   3. the demo fails with it, 4. the demo passes without it,
#   5. (optional, DETECT=1) the property's quick check reports a VIOLATION.
# Writes <out>/confirm.json and copies patch/demo/meta there.
set -u
SRC="$1"; OUT="$2"
ID=$(basename "$SRC"); PROP=${ID%%_*}
W=$(mktemp -d /tmp/confirm_XXXXXX)
trap 'rm -rf "$W"' EXIT
mkdir -p "$W/with" "$W/clean" "$OUT"
rsync -a --exclude .git --exclude __pycache__ --exclude docs /repo/ "$W/clean/"
rsync -a --exclude .git --exclude __pycache__ --exclude docs /repo/ "$W/with/"
cp "$SRC/patch.diff" "$SRC/demo.py" "$SRC/meta.json" "$OUT/" 2>/dev/null
( cd "$W/with" && git init -q . >/dev/null 2>&1 && git apply "$SRC/patch.diff" ) ; applies=$?
tests_rc=-1; demo_with=-1; demo_clean=-1; detect_rc=-1
if [ $applies -eq 0 ]; then
  ( cd "$W/with" && timeout 1500 /venv/bin/python -m pytest -q -x -p no:cacheprovider --timeout=900 > "$W/tests.log" 2>&1 ); tests_rc=$?
  mkdir -p "$W/with/_seeded/$ID" "$W/clean/_seeded/$ID"
  # demos may hard-code the author's worktree path: make them relocatable
  sed "s#/tmp/wt/$PROP#__CHECKOUT__#g" "$SRC/demo.py" > "$OUT/demo.py"
  sed "s#__CHECKOUT__#$W/with#g" "$OUT/demo.py" > "$W/with/_seeded/$ID/demo.py"
  sed "s#__CHECKOUT__#$W/clean#g" "$OUT/demo.py" > "$W/clean/_seeded/$ID/demo.py"
  ( cd "$W/with" && PYTHONPATH="$W/with" timeout 600 /venv/bin/python "_seeded/$ID/demo.py" > "$W/demo_with.log" 2>&1 ); demo_with=$?
  ( cd "$W/clean" && PYTHONPATH="$W/clean" timeout 600 /venv/bin/python "_seeded/$ID/demo.py" > "$W/demo_clean.log" 2>&1 ); demo_clean=$?
  if [ "${DETECT:-0}" = "1" ]; then
    HERE="$(dirname "$(dirname "$(readlink -f "$0")")")"
    ( cd "$HERE" && VERIF_REPO="$W/with" VERIF_OUT="$W/out" ./check "$PROP" --tier quick > "$W/check.log" 2>&1 ); detect_rc=$?
    grep -E "^VIOLATION" "$W/check.log" | head -3 | cut -c1-500 > "$OUT/detected_by_${PROP}.txt"
    tail -1 "$W/check.log" >> "$OUT/detected_by_${PROP}.txt"
  fi
fi
tests_summary=$(tail -1 "$W/tests.log" 2>/dev/null | tr -d '"' | cut -c1-120)
cat > "$OUT/confirm.json" <<JSON
{"id": "$ID", "property": "$PROP", "applies": $([ $applies -eq 0 ] && echo true || echo false),
 "tests_rc_with_change": $tests_rc, "tests_summary": "$tests_summary",
 "demo_rc_with_change": $demo_with, "demo_rc_without_change": $demo_clean,
 "own_check_rc_with_change": $detect_rc,
 "repo_head": "$(git -C /repo rev-parse HEAD)", "confirmed_at": "$(date -u +%FT%TZ)"}
JSON
echo "$ID applies=$applies tests=$tests_rc demo_with=$demo_with demo_clean=$demo_clean detect=$detect_rc"
