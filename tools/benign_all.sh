#!/bin/bash
# tools/benign_all.sh [jobs] [ids...]: run every behaviour-preserving patch under benign/ against the quick checks of the
# properties it touches (meta.json "properties"); appends "MATRIX <id> <check> rc=<rc> ..." lines to benign/RESULTS.log.
# Any rc=1 there is a false-alarm candidate (rc=2 = inconclusive).
cd "$(dirname "$(dirname "$(readlink -f "$0")")")"
JOBS=${1:-3}; shift || true
LOG=benign/RESULTS.log; : > $LOG
list=()
if [ $# -gt 0 ]; then list=("$@"); else for d in benign/*_[0-9]*; do list+=("$(basename "$d")"); done; fi
for id in "${list[@]}"; do
  d=benign/$id
  ids=$(/venv/bin/python -c "import json; print(' '.join(sorted(set(json.load(open('$d/meta.json')).get('properties', [])))))")
  while [ "$(jobs -r | wc -l)" -ge "$JOBS" ]; do sleep 2; done
  ( tools/matrix_one.sh "$id" "$PWD/$d/patch.diff" quick $ids >> $LOG 2>&1 ) &
done
wait
grep -c "rc=0" $LOG; grep -v "rc=0" $LOG
