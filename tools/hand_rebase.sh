#!/bin/bash
# tools/hand_rebase.sh <patch.diff> <edit.py>: re-create a stale patch by running a small edit script (python, cwd = a
# scratch copy of the current /repo) and writing the resulting `git diff` back; the old patch is kept as .pre-<head>
set -e
P="$(readlink -f "$1")"; E="$(readlink -f "$2")"
W=$(mktemp -d /tmp/rb_XXXXXX); trap 'rm -rf "$W"' EXIT
rsync -a --exclude .git --exclude __pycache__ --exclude docs /repo/ "$W/r/"
cd "$W/r" && git init -q . && git add -A >/dev/null && git -c user.email=a@b -c user.name=x commit -qm base
python3 "$E"
find . -name "*.orig" -delete; find . -name "*.rej" -delete
git diff > "$W/new.diff"
[ -s "$W/new.diff" ] || { echo "empty diff"; exit 1; }
/venv/bin/python -c "import ast,sys; [ast.parse(open(f).read()) for f in sys.argv[1:]]" $(git diff --name-only)
cp "$P" "$P.pre-$(git -C /repo rev-parse --short HEAD)"
cp "$W/new.diff" "$P"
echo "hand-rebased $P ($(grep -c '^@@' "$P") hunks)"
