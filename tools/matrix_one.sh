#!/bin/bash
# tools/matrix_one.sh <label> <patch.diff> <tier> <ID>... : apply a patch to ONE scratch copy of /repo and run the
# listed checks against it; prints "MATRIX <label> <ID> rc=<rc> <first violation clause>" per check.
set -u
LABEL="$1"; PATCH="$2"; TIER="$3"; shift 3
HERE="$(dirname "$(dirname "$(readlink -f "$0")")")"
W=$(mktemp -d /tmp/mx_XXXXXX)
trap 'rm -rf "$W"' EXIT
mkdir -p "$W/repo" && rsync -a --exclude .git --exclude __pycache__ --exclude docs /repo/ "$W/repo/"
( cd "$W/repo" && git init -q . >/dev/null 2>&1 && git apply "$PATCH" ) || { echo "MATRIX $LABEL - rc=apply-failed"; exit 3; }
cd "$HERE"
for ID in "$@"; do
  VERIF_REPO="$W/repo" VERIF_OUT="$W/out" ./check "$ID" --tier "$TIER" > "$W/log" 2>&1
  rc=$?
  first=$(grep -E "^(VIOLATION|INCONCLUSIVE)" "$W/log" | head -1 | sed -E 's/replay=[^ ]+ //' | cut -c1-260)
  echo "MATRIX $LABEL $ID rc=$rc $first"
done
