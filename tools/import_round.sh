#!/bin/bash
# tools/import_round.sh <srcroot> <dstroot> <offset>: copy <srcroot>/<P>/<P>_k to <dstroot>/<P>/<P>_(k+offset) when complete
SRC="$1"; DST="$2"; OFF="$3"
for d in "$SRC"/*/*_[0-9]; do
  [ -f "$d/patch.diff" ] && [ -f "$d/demo.py" ] && [ -f "$d/meta.json" ] || continue
  id=$(basename "$d"); p=${id%%_*}; k=${id##*_}; n=$((k+OFF))
  [ -d "$DST/$p/${p}_$n" ] && continue
  mkdir -p "$DST/$p/${p}_$n"; cp "$d/patch.diff" "$d/demo.py" "$d/meta.json" "$DST/$p/${p}_$n/"
  echo "imported ${p}_$n"
done
