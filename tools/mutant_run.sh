#!/bin/bash
# tools/mutant_run.sh <patch.diff | revert:<commit>> <ID> [tier] [extra check args]
# Runs a check against a scratch copy of /repo with the patch applied (never touches /repo).
# Prints the check's tail and "MUTANT-RESULT <id> rc=<rc>".
set -u
PATCH="$1"; ID="$2"; TIER="${3:-quick}"; shift; shift; shift || true
HERE="$(dirname "$(dirname "$(readlink -f "$0")")")"
W=$(mktemp -d /tmp/mut_XXXXXX)
trap 'rm -rf "$W"' EXIT
mkdir -p "$W/repo" && rsync -a --exclude .git --exclude __pycache__ --exclude docs /repo/ "$W/repo/"
cd "$W/repo" && git init -q . >/dev/null 2>&1
if [[ "$PATCH" == revert:* ]]; then
  C="${PATCH#revert:}"
  git -C /repo diff "$C^" "$C" > "$W/p.diff"
  git apply -R "$W/p.diff" || { echo "MUTANT-RESULT $ID rc=apply-failed"; exit 3; }
else
  git apply "$PATCH" || { echo "MUTANT-RESULT $ID rc=apply-failed"; exit 3; }
fi
cd "$HERE"
VERIF_REPO="$W/repo" VERIF_OUT="$W/out" ./check "$ID" --tier "$TIER" "$@" > "$W/log" 2>&1
rc=$?
grep -E "^(VIOLATION|INCONCLUSIVE|KNOWN-FINDING)" "$W/log" | cut -c1-400 | head -${MUT_LINES:-4}
tail -1 "$W/log" | cut -c1-300
echo "MUTANT-RESULT $ID rc=$rc"
exit 0
