#!/usr/bin/env python3
"""Print the markdown table of seeded changes (seeded/<id>/meta.json + confirm.json + detected_by_*.txt)."""
import glob
import json
import os
import re
import sys

root = os.path.dirname(os.path.dirname(os.path.abspath(__file__)))
rows = []
for d in sorted(glob.glob(os.path.join(root, "seeded", "*")), key=lambda p: (os.path.basename(p).split("_")[0], int(os.path.basename(p).split("_")[1]))):
    sid = os.path.basename(d)
    try:
        meta = json.load(open(os.path.join(d, "meta.json")))
        conf = json.load(open(os.path.join(d, "confirm.json")))
    except Exception as e:  # noqa: BLE001
        print(f"<!-- {sid}: incomplete ({e}) -->", file=sys.stderr)
        continue
    clause = ""
    for f in glob.glob(os.path.join(d, "detected_by_*.txt")):
        m = re.search(r"clause=(\S+)", open(f).read())
        if m:
            clause = m.group(1)
    ok = conf["applies"] and conf["tests_rc_with_change"] == 0 and conf["demo_rc_with_change"] != 0 and conf["demo_rc_without_change"] == 0
    summ = re.sub(r"\s+", " ", meta["summary"])[:150].replace("|", "/")
    own = '**caught** (' + clause + ')' if conf['own_check_rc_with_change'] == 1 else 'rc=' + str(conf['own_check_rc_with_change'])
    if conf['own_check_rc_with_change'] != 1:
        if meta.get("caught_by_sibling_check"):
            own += f" - caught by {meta['caught_by_sibling_check']}"
        elif meta.get("not_covered_deliberately"):
            own += f" - not covered, deliberately ({meta['not_covered_deliberately']})"
        elif meta.get("still_missed"):
            own += f" - {meta['still_missed']}"
        elif meta.get("status_note"):
            own += " - neutralised by a repair (see text)"
    rows.append(f"| {sid} | {summ} | {'yes' if ok else 'NO'} | {own} |")
print("| id | change (abridged) | confirmed (suite green, demo fails with / passes without) | own check, quick tier, seed 0 |")
print("|---|---|---|---|")
print("\n".join(rows))
