#!/bin/bash
# tools/matrix_all.sh [jobs]: run every seeded change against the quick checks of all properties anchored in the
# files it touches (one scratch copy of /repo per change); appends "MATRIX <id> <check> rc=<rc> ..." lines to
# seeded/MATRIX.log (resumable: ids already present in the log are skipped)
cd "$(dirname "$(dirname "$(readlink -f "$0")")")"
JOBS=${1:-4}
LOG=seeded/MATRIX.log
touch $LOG
checks_for() {
  local files="$1" out=""
  case "$files" in *image_analysis.py*) out="$out C01 C02 C04 C05 C09 C14 C15 C16 C17 C18 C19";; esac
  case "$files" in *emulsions.py*) out="$out C01 C02 C03 C08 C10 C14 C15 C17 C20";; esac
  case "$files" in *droplets/droplets.py*) out="$out C03 C04 C06 C07 C08 C10 C11 C12 C13 C19 C20";; esac
  case "$files" in *droplet_tracks.py*) out="$out C06 C07 C08 C09 C20";; esac
  case "$files" in *trackers.py*) out="$out C09 C14";; esac
  case "$files" in *tools/*) out="$out C01 C03 C09 C11 C12 C13 C14";; esac
  echo $out | tr ' ' '\n' | sort -u | tr '\n' ' '
}
for d in seeded/*_[0-9]*; do
  id=$(basename $d)
  grep -q "^MATRIX $id " $LOG && continue
  files=$(grep '^+++ b/' $d/patch.diff | tr '\n' ' ')
  ids=$(checks_for "$files")
  while [ "$(jobs -r | wc -l)" -ge "$JOBS" ]; do sleep 3; done
  ( tools/matrix_one.sh $id "$PWD/$d/patch.diff" quick $ids >> $LOG 2>&1 ) &
done
wait
