#!/usr/bin/env python3
"""Regenerate the generated tables of DESIGN.md (seeded changes; cost) between their markers."""
import json
import os
import re
import subprocess
import sys

root = os.path.dirname(os.path.dirname(os.path.abspath(__file__)))
design = os.path.join(root, "DESIGN.md")
s = open(design).read()

table = subprocess.run([sys.executable, os.path.join(root, "tools", "seeded_table.py")], capture_output=True, text=True).stdout
s = re.sub(r"<!-- SEEDED_TABLE_BEGIN -->.*?<!-- SEEDED_TABLE_END -->",
           lambda m: "<!-- SEEDED_TABLE_BEGIN -->\n" + table.strip() + "\n<!-- SEEDED_TABLE_END -->", s, flags=re.S)

rows = []
thorough = {}
tf = os.path.join(root, "tools", "thorough_runs.json")
if os.path.exists(tf):
    thorough = json.load(open(tf))
for i in range(1, 21):
    pid = f"C{i:02d}"
    f = os.path.join(root, "evidence", pid + ".json")
    q = ("?", "?")
    if os.path.exists(f):
        ev = json.load(open(f))
        if ev.get("tier") == "quick":
            q = (f"{ev['wall_s']:.0f} s", str(ev["coverage"]["evaluations"]))
    t = thorough.get(pid, {})
    rows.append(f"| {pid} | {q[0]} | {q[1]} | {t.get('wall', '?')} | {t.get('evaluations', '?')} |")
s = re.sub(r"<!-- COST_TABLE_BEGIN -->.*?<!-- COST_TABLE_END -->",
           lambda m: "<!-- COST_TABLE_BEGIN -->\n" + "\n".join(rows) + "\n<!-- COST_TABLE_END -->", s, flags=re.S)
open(design, "w").write(s)
print("DESIGN.md tables updated")
