#!/bin/bash
# tools/benign_run.sh <srcroot> <group> [extra IDs...]: run each behaviour-preserving patch of a group against the checks of
# the properties it touches (meta.json "properties") plus the extra IDs; any rc != 0 is a false-alarm candidate.
cd "$(dirname "$(dirname "$(readlink -f "$0")")")"
SRC="$1"; G="$2"; shift 2
JOBS=${BENIGN_JOBS:-3}
for d in "$SRC/$G"/${G}_*; do
  [ -f "$d/patch.diff" ] || continue
  ids=$(/venv/bin/python -c "import json,sys; print(' '.join(sorted(set(json.load(open('$d/meta.json')).get('properties', [])) | set(sys.argv[1:]))))" "$@")
  while [ "$(jobs -r | wc -l)" -ge "$JOBS" ]; do sleep 2; done
  ( tools/matrix_one.sh "$(basename $d)" "$d/patch.diff" quick $ids ) &
done
wait
