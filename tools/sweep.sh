#!/bin/bash
# tools/sweep.sh <tier> <seed>... : run every check for the given seeds, print one line per run
cd "$(dirname "$(dirname "$(readlink -f "$0")")")"
TIER="$1"; shift
for s in "$@"; do
  for p in C01 C02 C03 C04 C05 C06 C07 C08 C09 C10 C11 C12 C13 C14 C15 C16 C17 C18 C19 C20; do
    out=$(VERIF_SEED=$s VERIF_OUT=${SWEEP_OUT:-/tmp/sweep_out} ./check $p --tier "$TIER" 2>&1)
    rc=$?
    echo "seed=$s $p rc=$rc $(echo "$out" | tail -1 | cut -c1-160)"
    if [ $rc -ne 0 ]; then echo "$out" | grep -E "^(VIOLATION|INCONCLUSIVE)" | cut -c1-700 | head -5; fi
  done
done
