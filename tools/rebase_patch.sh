#!/bin/bash
# tools/rebase_patch.sh <patch.diff>: re-create a patch whose context went stale after a fix commit in /repo
# (applies it with fuzz to a scratch copy of the current /repo and writes the fresh `git diff` back)
set -e
P="$(readlink -f "$1")"
W=$(mktemp -d /tmp/rb_XXXXXX); trap 'rm -rf "$W"' EXIT
rsync -a --exclude .git --exclude __pycache__ --exclude docs /repo/ "$W/r/"
cd "$W/r" && git init -q . && git add -A >/dev/null && git -c user.email=a@b -c user.name=x commit -qm base
patch -p1 --fuzz=3 --no-backup-if-mismatch < "$P" > "$W/patch.log" 2>&1 || { cat "$W/patch.log"; echo "REBASE FAILED"; exit 1; }
find . -name "*.orig" -delete; find . -name "*.rej" -print | grep . && { echo "REJECTS"; exit 1; }
git diff > "$W/new.diff"
[ -s "$W/new.diff" ] || { echo "empty diff"; exit 1; }
cp "$P" "$P.pre-$(git -C /repo rev-parse --short HEAD)"
cp "$W/new.diff" "$P"
echo "rebased $P ($(grep -c '^@@' "$P") hunks)"
