#!/bin/bash
# tools/reconfirm_all.sh [jobs] [ids...]: confirm every change under seeded/ again on the current /repo (suite green with
# the change, demo fails with / passes without, own quick check) and rewrite its confirm.json and detection lines.
cd "$(dirname "$(dirname "$(readlink -f "$0")")")"
JOBS=${1:-5}; shift || true
T=$(mktemp -d /tmp/reconf_XXXXXX); trap 'rm -rf "$T"' EXIT
list=()
if [ $# -gt 0 ]; then list=("$@"); else for d in seeded/*_[0-9]*; do list+=("$(basename "$d")"); done; fi
for id in "${list[@]}"; do
  p=${id%%_*}; mkdir -p "$T/$p/$id"; cp seeded/$id/patch.diff seeded/$id/demo.py seeded/$id/meta.json "$T/$p/$id/"
  while [ "$(jobs -r | wc -l)" -ge "$JOBS" ]; do sleep 2; done
  ( DETECT=1 tools/confirm_seeded.sh "$T/$p/$id" "seeded/$id" ) &
done
wait
