#!/bin/bash
# Offline setup: put icontract beside the repository's interpreter (wheelhouse only) and
# run the oracle self-tests. Safe to re-run.
set -e
cd "$(dirname "$(readlink -f "$0")")"
PY=${VERIF_PYTHON:-/venv/bin/python}
if [ ! -d .deps/icontract ]; then
  "$PY" -m pip install --quiet --no-index --find-links /opt/veriftools/wheels \
      --target .deps icontract 2>&1 | grep -v -i "warning" || true
fi
[ -d .deps/icontract ] || { echo "setup: icontract could not be installed from the wheelhouse"; exit 1; }
export PYTHONHASHSEED=0 MPLBACKEND=Agg PYTHONDONTWRITEBYTECODE=1 VERIF_ROOT="$PWD"
"$PY" -m vmon.selftest
echo "setup: ok"
