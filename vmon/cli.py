"""Check driver: plans shards, runs them in child processes, merges, writes evidence.

Usage: python -m vmon.cli <ID> [--tier quick|thorough] [--replay FILE] [--jobs N]
Exit codes: 0 held on everything observed, 1 violation, 2 inconclusive.
"""

from __future__ import annotations

import argparse
import importlib
import json
import os
import shutil
import subprocess
import sys
import tempfile
import time
from concurrent.futures import ThreadPoolExecutor
from pathlib import Path

import numpy as np

from . import core

ROOT = core.ROOT
OUT = Path(os.environ.get("VERIF_OUT", ROOT))  # evidence/ and replays/ go here


def load_known_findings():
    path = ROOT / "known_findings.json"
    if not path.exists():
        return []
    return json.loads(path.read_text())["findings"]


def run_shard(prop, spec, tmpdir, idx):
    spec_path = Path(tmpdir) / f"spec_{idx}.json"
    out_path = Path(tmpdir) / f"out_{idx}.json"
    spec_path.write_text(json.dumps(spec))
    timeout = float(spec.get("timeout_s", 1800))
    t0 = time.monotonic()
    env = dict(os.environ)
    env.update(spec.get("env") or {})
    env["VERIF_SCRATCH"] = str(Path(tmpdir) / f"scratch_{idx}")
    Path(env["VERIF_SCRATCH"]).mkdir(exist_ok=True)
    try:
        p = subprocess.run(
            [sys.executable, "-m", "vmon.worker", prop, str(spec_path), str(out_path)],
            cwd=str(ROOT), timeout=timeout, capture_output=True, text=True, env=env,
        )
        status = {"rc": p.returncode, "stderr": p.stderr[-2000:]}
    except subprocess.TimeoutExpired:
        status = {"rc": None, "timeout": True, "stderr": ""}
    status["wall_s"] = time.monotonic() - t0
    status["name"] = spec.get("name", str(idx))
    res = None
    if out_path.exists():
        res = json.loads(out_path.read_text())
        z = np.load(str(out_path) + ".npz")
        res["_nontrivial"] = z["nontrivial"]
        res["_trivial"] = z["trivial"]
    shutil.rmtree(env["VERIF_SCRATCH"], ignore_errors=True)
    return status, res


def merge(results):
    m = {
        "evaluations": 0, "counters": {}, "monitors": {}, "samples": {}, "violations": [],
        "suppressed_violations": 0, "sentinels": {}, "lines": {}, "harness_errors": [],
        "notes": {}, "spaces": {},
    }
    nts, trs = [], []
    for r in results:
        m["evaluations"] += r["evaluations"]
        for k, v in r["counters"].items():
            m["counters"][k] = m["counters"].get(k, 0) + v
        for k, v in r["monitors"].items():
            m["monitors"][k] = m["monitors"].get(k, 0) + v
        for k, v in r["samples"].items():
            lst = m["samples"].setdefault(k, [])
            for s in v:
                if len(lst) < 4:
                    lst.append(s)
        m["violations"].extend(r["violations"])
        m["suppressed_violations"] += r["suppressed_violations"]
        for k, v in r["sentinels"].items():
            s = m["sentinels"].setdefault(k, {"what": v["what"], "runs": 0, "violations": 0})
            s["runs"] += v["runs"]
            s["violations"] += v["violations"]
        for k, v in r["lines"].items():
            m["lines"][k] = sorted(set(m["lines"].get(k, [])) | set(v))
        m["harness_errors"].extend(r["harness_errors"])
        for k, v in r["notes"].items():
            if isinstance(v, (int, float)) and isinstance(m["notes"].get(k), (int, float)):
                m["notes"][k] = max(m["notes"][k], v)
            elif isinstance(v, dict) and isinstance(m["notes"].get(k), dict):
                for kk, vv in v.items():
                    old_v = m["notes"][k].get(kk)
                    if isinstance(vv, (int, float)) and isinstance(old_v, (int, float)):
                        m["notes"][k][kk] = old_v + vv
                    else:
                        m["notes"][k][kk] = vv
            else:
                m["notes"].setdefault(k, v)
        for k, v in r["spaces"].items():
            s = m["spaces"].setdefault(k, {"size": v["size"], "enumerated": 0})
            s["enumerated"] += v["enumerated"]
        nts.append(r["_nontrivial"])
        trs.append(r["_trivial"])
    nt = np.unique(np.concatenate(nts)) if nts else np.zeros(0, np.uint64)
    tr = np.unique(np.concatenate(trs)) if trs else np.zeros(0, np.uint64)
    m["distinct_nontrivial"] = int(nt.size)
    m["distinct_trivial"] = int(np.setdiff1d(tr, nt).size)
    return m


def main(argv=None):
    ap = argparse.ArgumentParser()
    ap.add_argument("prop")
    ap.add_argument("--tier", default=os.environ.get("VERIF_TIER", "quick"),
                    choices=["quick", "thorough"])
    ap.add_argument("--replay", default=None)
    ap.add_argument("--jobs", type=int, default=None)
    ap.add_argument("--only", default=None, help="run only shards whose name contains this")
    args = ap.parse_args(argv)
    prop = args.prop.upper()
    seed = int(os.environ.get("VERIF_SEED", "0"))
    t0 = time.monotonic()

    mod = importlib.import_module(f"vmon.props.{prop.lower()}")
    if args.replay:
        rep = core.decode_specials(json.loads(Path(args.replay).read_text()))
        specs = [{"name": "replay", "replay": rep, "tier": args.tier, "seed": seed,
                  "timeout_s": 1800, "env": dict(getattr(mod, "ENV", None) or {})}]
    else:
        specs = mod.plan(args.tier, seed)
        for s in specs:
            s.setdefault("tier", args.tier)
            s.setdefault("seed", seed)
            if getattr(mod, "ENV", None):
                s.setdefault("env", dict(mod.ENV))
        if args.only:
            specs = [s for s in specs if args.only in s["name"]]
    jobs = args.jobs or int(os.environ.get("VERIF_JOBS", "0")) or (
        min(16, os.cpu_count() or 4) if args.tier == "thorough" else min(8, os.cpu_count() or 4)
    )
    jobs = max(1, min(jobs, len(specs)))
    if getattr(mod, "SERIAL_SHARDS", False):
        jobs = min(jobs, getattr(mod, "MAX_JOBS", 1))

    tmpdir = tempfile.mkdtemp(prefix=f"vmon_{prop}_")
    try:
        with ThreadPoolExecutor(max_workers=jobs) as ex:
            outs = list(ex.map(lambda a: run_shard(prop, a[1], tmpdir, a[0]), enumerate(specs)))
    finally:
        shutil.rmtree(tmpdir, ignore_errors=True)

    inconclusive = []
    results = []
    for status, res in outs:
        if status.get("timeout"):
            inconclusive.append(f"shard {status['name']} hit its watchdog")
        elif status["rc"] != 0 or res is None:
            inconclusive.append(
                f"shard {status['name']} died rc={status['rc']}: {status['stderr'][-400:]!r}")
        if res is not None:
            results.append(res)
    m = merge(results)
    for e in m["harness_errors"][:5]:
        inconclusive.append("harness error: " + e[-600:])

    if hasattr(mod, "post_merge") and not args.replay:
        mod.post_merge(m, inconclusive)

    known = {(f["property"], f["key"]): f for f in load_known_findings()}
    viol_lines, known_lines = [], []
    seen_known = set()
    n_viol = 0
    replay_dir = OUT / "replays" / prop
    if not args.replay and not args.only and replay_dir.is_dir():
        shutil.rmtree(replay_dir, ignore_errors=True)  # the directory reflects the last complete run
        try:
            replay_dir.parent.rmdir()
        except OSError:
            pass
    for v in m["violations"]:
        fk = v.get("finding_key")
        f = known.get((prop, fk)) if fk else None
        if f is not None and f.get("status") == "known":
            if fk not in seen_known:
                seen_known.add(fk)
                known_lines.append(f"KNOWN-FINDING: property={prop} key={fk} {f['what']}")
            continue
        n_viol += 1
        replay_dir.mkdir(parents=True, exist_ok=True)
        d = core.digest([v["clause"], v["kind"], v["case"]])
        path = replay_dir / f"{v['clause'].replace('/', '_')}-{d:016x}.json"
        path.write_text(json.dumps(v, indent=1))
        viol_lines.append(
            f"VIOLATION property={prop} replay={path} clause={v['clause']} :: "
            f"{v['message'][:300]}")

    if not args.replay:
        for name, need in getattr(mod, "REQUIRED_MONITORS", {}).items():
            got = m["monitors"].get(name, 0)
            if got < need:
                inconclusive.append(f"monitor {name} evaluated {got} < {need} times")
        if m["distinct_nontrivial"] < getattr(mod, "MIN_NONTRIVIAL", 2):
            inconclusive.append(
                f"only {m['distinct_nontrivial']} distinct non-trivial cases observed")
        for key, s in m["sentinels"].items():
            f = known.get((prop, key))
            if f is not None and f.get("status") == "known" and s["violations"] == 0:
                print(f"NOTE property={prop} known finding {key} did not reproduce in this run")

    exhaustive = bool(m["spaces"]) and all(
        s["enumerated"] >= s["size"] for s in m["spaces"].values())
    wall = time.monotonic() - t0
    if not args.replay:
        samples = []
        for kind, lst in m["samples"].items():
            for s in lst[:3]:
                samples.append({"kind": kind, "case": s})
        coverage = {
            "evaluations": m["evaluations"],
            "distinct_nontrivial": m["distinct_nontrivial"],
            "distinct_trivial": m["distinct_trivial"],
            "rule": getattr(mod, "RULE", ""),
            "samples": samples[:24],
            "exhaustive": exhaustive,
            "finite_spaces": m["spaces"],
            "histograms": dict(sorted(m["counters"].items())),
            "monitor_evaluations": dict(sorted(m["monitors"].items())),
            "anchor_lines_executed": {k: {"n": len(v), "lines": v} for k, v in m["lines"].items()},
            "sentinels": m["sentinels"],
            "known_findings_reported": sorted(seen_known),
            "observations": m["notes"],
            "shards": [{"name": s["name"], "wall_s": round(s["wall_s"], 2),
                        "rc": s["rc"]} for s, _ in outs],
            "repo": core.repo_state(),
            "verdict": "violated" if n_viol else ("inconclusive" if inconclusive else "held"),
            "inconclusive_reasons": inconclusive,
            "suppressed_duplicate_violations": m["suppressed_violations"],
        }
        ev = {
            "property_id": prop,
            "tier": args.tier,
            "seed": seed,
            "level": "exploration",
            "coverage": coverage,
            "assumptions": list(getattr(mod, "ASSUMPTIONS", [])),
            "wall_s": round(wall, 3),
            "violations": n_viol,
        }
        evdir = OUT / "evidence"
        evdir.mkdir(parents=True, exist_ok=True)
        (evdir / f"{prop}.json").write_text(json.dumps(ev, indent=1, sort_keys=False))

    for line in known_lines:
        print(line)
    for line in viol_lines:
        print(line)
    print(
        f"{prop} tier={args.tier} seed={seed} evaluations={m['evaluations']} "
        f"distinct_nontrivial={m['distinct_nontrivial']} violations={n_viol} "
        f"known={len(seen_known)} wall={wall:.1f}s")
    if n_viol:
        return 1
    if inconclusive:
        for r in inconclusive:
            print(f"INCONCLUSIVE property={prop} reason={r}")
        return 2
    return 0


if __name__ == "__main__":
    sys.exit(main())
