"""Oracle self-tests run by setup.sh (the oracles are checked against independent means)."""

from __future__ import annotations

import itertools
import sys

import numpy as np


def test_topology():
    from .oracles import topology

    n = 0
    for shape in [(3, 3), (2, 4), (2, 2, 2), (7,)]:
        ncell = int(np.prod(shape))
        for pm in itertools.product([False, True], repeat=len(shape)):
            for bits in range(0, 2 ** ncell, 3 if ncell > 8 else 1):
                mask = np.array([(bits >> k) & 1 for k in range(ncell)], bool).reshape(shape)
                comps = topology.components(mask, pm)
                lab = topology.brute_force_labels(mask, pm)
                sets_a = sorted(sorted(map(tuple, c["cells"].tolist())) for c in comps)
                sets_b = sorted(sorted(map(tuple, np.argwhere(lab == v).tolist()))
                                for v in np.unique(lab) if v)
                assert sets_a == sets_b, (shape, pm, bits)
                for c in comps:  # sheets are consistent along faces unless winding
                    if not c["winding"]:
                        pos = {tuple(x): tuple(s) for x, s in zip(c["cells"].tolist(), c["sheets"].tolist())}
                        for x, s in pos.items():
                            for a in range(len(shape)):
                                y = list(x)
                                y[a] += 1
                                if y[a] < shape[a] and tuple(y) in pos:
                                    assert pos[tuple(y)] == s
                n += 1
    # a stripe winds, a straddling pair does not
    m = np.zeros((4, 4), bool)
    m[1, :] = True
    assert topology.components(m, [True, True])[0]["winding"]
    assert not topology.components(m, [True, False])[0]["winding"]
    m = np.zeros((4, 4), bool)
    m[0, 0] = m[3, 0] = True
    c = topology.components(m, [True, False])
    assert len(c) == 1 and not c[0]["winding"]
    return n


def test_harmonics():
    from scipy.special import sph_harm_y

    from .oracles import harmonics

    rng = np.random.default_rng(1)
    th = rng.uniform(0, np.pi, 50)
    ph = rng.uniform(-np.pi, np.pi, 50)
    th[:3] = [0.0, np.pi, np.pi / 2]
    n = 0
    for k in range(0, 36):
        l, m = harmonics.lm_from_k(k)
        assert l * (l + 1) + m == k and -l <= m <= l
        y = harmonics.real_harmonic_k(k, th, ph)
        c = sph_harm_y(l, abs(m), th, ph)
        if m > 0:
            ref = (-1) ** m * np.sqrt(2) * c.real
        elif m < 0:
            ref = (-1) ** m * np.sqrt(2) * c.imag
        else:
            ref = c.real
        assert np.allclose(y, ref, atol=1e-12), (k, np.abs(y - ref).max())
        assert np.all(np.abs(y) <= harmonics.max_abs_harmonic(l) + 1e-12)
        n += 1
    return n


def test_geom():
    from . import core

    core.bootstrap()
    from .oracles import geom

    rng = np.random.default_rng(2)
    n = 0
    for _ in range(20):
        for spec in (geom.rand_cart_spec(rng, int(rng.integers(1, 4))), geom.rand_sym_spec(rng, "polar"),
                     geom.rand_sym_spec(rng, "sph"), geom.rand_cyl_spec(rng)):
            grid = geom.make_grid(spec)
            v = geom.cell_volumes(grid, spec)
            assert v.shape == tuple(spec["shape"])
            assert abs(v.sum() - grid.volume) <= 1e-10 * grid.volume, (spec, v.sum(), grid.volume)
            assert np.allclose(geom.spacing(spec), grid.discretization)
            assert geom.cell_centers_cart(grid).shape == tuple(spec["shape"]) + (grid.dim,)
            n += 1
    assert np.allclose(geom.min_image(np.array([2.6, -2.6, 0.4]), [5.0, 5.0, None]), [-2.4, 2.4, 0.4])
    return n


def main():
    res = {"topology": test_topology(), "harmonics": test_harmonics(), "geom": test_geom()}
    print("selftest ok:", res)


if __name__ == "__main__":
    sys.exit(main())
