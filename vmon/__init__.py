"""vmon - runtime monitors for py-droplets (see /verif/DESIGN.md)."""
