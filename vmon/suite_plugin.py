"""pytest plugin: the repository's own test files executed with input-agnostic monitors on.

Activated by the check shards of kind ``suite`` (``python -m pytest <repo>/tests -p vmon.suite_plugin``)
with ``VMON_SUITE_PROP`` naming the property whose monitor is attached and ``VMON_SUITE_OUT`` the
file the recorder is dumped to.  The outcome of the tests themselves is irrelevant here; what counts
is what the monitors observe on the (fixed, but realistic) inputs of the suite.  A monitor that
fires is read like any other witness.
"""

from __future__ import annotations

import os
from pathlib import Path

import numpy as np

_state = {"rec": None, "prop": None}


def spec_from_grid(grid):
    """JSON grid spec (oracles.geom) of a py-pde grid, or None if the family is not handled."""
    import pde

    if isinstance(grid, pde.CartesianGrid):
        return {"family": "cart", "bounds": [[float(a), float(b)] for a, b in grid.axes_bounds],
                "shape": [int(n) for n in grid.shape], "periodic": [bool(p) for p in grid.periodic]}
    if isinstance(grid, pde.CylindricalSymGrid):
        return {"family": "cyl", "radius": float(grid.axes_bounds[0][1]), "bounds_z": [float(x) for x in grid.axes_bounds[1]],
                "shape": [int(n) for n in grid.shape], "periodic_z": bool(grid.periodic[1])}
    return None


def _install_c02(rec):
    from droplets import image_analysis as ia

    from .props import c02

    orig = ia.locate_droplets_in_mask

    def wrapper(mask, *a, **k):
        res = orig(mask, *a, **k)
        try:
            spec = spec_from_grid(mask.grid)
            if spec is not None and (spec["family"] != "cyl" or float(mask.grid.axes_bounds[0][0]) == 0.0):
                rec.hit("suite:locate_droplets_in_mask")
                arr = np.asarray(mask.data).astype(bool)
                case = {"grid": spec, "mask": arr.astype(int).tolist() if arr.size <= 4096 else f"<{arr.shape} image>",
                        "test": os.environ.get("PYTEST_CURRENT_TEST", "")}
                with rec.case("suite", case), np.errstate(all="ignore"):
                    facts = c02.check_result(spec, arr, list(res), rec, label="[repository test suite] ")
                    rec.evaluated(nontrivial=bool(facts.get("multi_piece") or facts.get("winding") or facts.get("dropped")))
        except Exception as e:  # noqa: BLE001
            rec.harness_error("suite C02", e)
        return res

    ia.locate_droplets_in_mask = wrapper


def _install_c06(rec):
    from droplets import droplet_tracks

    from .props import common, tracking

    cls = droplet_tracks.DropletTrackList
    orig = cls.from_emulsion_time_course.__func__

    def wrapper(klass, time_course, *a, **k):
        try:
            keys = [[common.droplet_bytes(d).hex() for d in e] for e in time_course.emulsions]
            frames = [[[float(x) for x in np.atleast_1d(d.position)] + [float(d.radius)] for d in e] for e in time_course.emulsions]
            times = [float(t) for t in time_course.times]
            before = tracking.snapshot(time_course)
        except Exception as e:  # noqa: BLE001
            rec.harness_error("suite C06 (pre)", e)
            return orig(klass, time_course, *a, **k)
        call = common.Call("from_emulsion_time_course")
        try:
            call.result = orig(klass, time_course, *a, **k)
        except Exception as e:  # noqa: BLE001
            call.exc = e
        try:
            grid = k.get("grid")
            spec = spec_from_grid(grid) if grid is not None else None
            usable = len(set(times)) == len(times) and (grid is None or (spec is not None and spec["family"] == "cart"))
            if usable:
                rec.hit("suite:from_emulsion_time_course")
                dim = len(frames[0][0]) - 1 if any(frames) and frames[0] else (len(next(f for f in frames if f)[0]) - 1 if any(frames) else 1)
                hist = {"dim": dim, "grid": spec, "times": times, "frames": frames, "method": k.get("method", "overlap"),
                        "max_dist": k.get("max_dist"), "member_keys": keys, "test": os.environ.get("PYTEST_CURRENT_TEST", "")}
                with rec.case("suite", hist), np.errstate(all="ignore"):
                    tracking.check_partition(hist, call, before, tracking.snapshot(time_course), rec)
                    rec.evaluated(nontrivial=len({len(f) for f in frames}) > 1)
        except Exception as e:  # noqa: BLE001
            rec.harness_error("suite C06", e)
        if call.exc is not None:
            raise call.exc
        return call.result

    cls.from_emulsion_time_course = classmethod(wrapper)


def _install_c08(rec):
    from droplets import droplet_tracks, emulsions

    from .props import c08

    written: dict[str, tuple] = {}

    def wrap(cls):
        orig_to, orig_from = cls.to_file, cls.from_file.__func__

        def to_file(self, path, *a, **k):
            res = orig_to(self, path, *a, **k)
            try:
                written[os.path.abspath(str(path))] = (cls.__name__, c08.snap(self))
            except Exception as e:  # noqa: BLE001
                rec.harness_error("suite C08 (to_file)", e)
            return res

        def from_file(klass, path, *a, **k):
            res = orig_from(klass, path, *a, **k)
            try:
                key = os.path.abspath(str(path))
                if key in written and written[key][0] == klass.__name__:
                    rec.hit("suite:roundtrip")
                    with rec.case("suite", {"type": klass.__name__, "test": os.environ.get("PYTEST_CURRENT_TEST", "")}):
                        before, after = written[key][1], c08.snap(res)
                        rec.check(after == before, "roundtrip-equal",
                                  f"[repository test suite] {klass.__name__} reads back different: {c08.diff_text(before, after)}")
                        rec.evaluated(nontrivial=True)
            except Exception as e:  # noqa: BLE001
                rec.harness_error("suite C08 (from_file)", e)
            return res

        cls.to_file = to_file
        cls.from_file = classmethod(from_file)

    for c in (emulsions.Emulsion, emulsions.EmulsionTimeCourse, droplet_tracks.DropletTrack, droplet_tracks.DropletTrackList):
        wrap(c)


def _install_c20(rec):
    from .props import c20

    c20.install_invariants(rec)


def pytest_configure(config):
    from . import core

    prop = os.environ.get("VMON_SUITE_PROP")
    if not prop:
        return
    core.bootstrap()
    np.seterr(all="warn")
    rec = core.Recorder(prop, shard="suite")
    _state["rec"], _state["prop"] = rec, prop
    {"C02": _install_c02, "C06": _install_c06, "C08": _install_c08, "C20": _install_c20}[prop](rec)


def pytest_runtest_makereport(item, call):
    # an invariant/contract raising inside a test surfaces as that test's failure: record it as an observation
    rec = _state["rec"]
    if rec is not None and call.excinfo is not None and call.excinfo.type.__name__ in ("InvariantBroken", "ContractBroken"):
        rec.violation("invariant", f"[repository test suite] {item.nodeid}: {call.excinfo.value!r}"[:600],
                      case={"test": item.nodeid}, kind="suite")


def pytest_sessionfinish(session, exitstatus):
    rec = _state["rec"]
    out = os.environ.get("VMON_SUITE_OUT")
    if rec is not None and out:
        rec.note("suite_exitstatus", int(exitstatus))
        rec.dump(Path(out))
