"""C01 - locating a rendered emulsion returns each droplet once, with exact volume.

Monitor: post-condition on ``droplets.locate_droplets(field)`` and on
``Emulsion.get_phasefield(grid).integral``; the workload hands the ground truth (centres,
radii) to the oracle.  Oracle: covered cell set {centre : min-image distance < R} from the
oracle's own metric, closed-form cell volumes, per-axis half-cell bound.
"""

from __future__ import annotations

import math

import numpy as np

from .. import core
from ..oracles import geom
from . import common

ID = "C01"
RULE = (
    "cases = (grid spec, list of spherical droplets) drawn from seeded generators over "
    "Cartesian d=1..3 (all periodicity masks, anisotropic spacing, random origin, centres "
    "anywhere in [lo-L, lo+2L] on periodic axes, corner-straddling and on-cell-centre modes), "
    "polar, spherical and cylindrical (periodic z: interior droplets) grids, constrained by "
    "the stated preconditions (resolvable: R > |h|/2; separated: surface gap > 3|h|+2h_max; "
    "fits the periodic box); cases with a cell centre within 1e-9 h of an interface are "
    "regenerated. A case is non-trivial if a droplet's covered set is split by a periodic "
    "boundary (>=2 ndimage pieces), or it has >=2 droplets, or the spacing is anisotropic "
    "(ratio > 1.05). Distinctness = digest of (grid spec, droplet parameters)."
)
ASSUMPTIONS = [
    "py-pde grid construction, axes_coords, discretization and grid->cartesian transform are trusted",
    "the periodic metric is the oracle's own minimum image, not py-pde's",
    "cylindrical periodic grids: droplets are kept away from the z boundary by their radius "
    "(rendering there depends on py-pde's difference_vector, see C03 known finding pde-cyl-periodic-metric)",
    "sizes are bounded: <=24 cells per axis (3-D <=14), <=4 droplets",
]
REQUIRED_MONITORS = {"post:count": 50, "post:volume": 50, "post:position": 50,
                     "post:integral": 50}
MIN_NONTRIVIAL = 20

VOL_RTOL = 1e-11
POS_TOL = 1e-9


def plan(tier, seed):
    if tier == "quick":
        kinds = {"cart1": 500, "cart2": 900, "cart3": 350, "corner": 400, "polar": 200,
                 "sph": 200, "cyl": 450, "empty": 150}
        per = 200
    else:
        kinds = {"cart1": 20000, "cart2": 40000, "cart3": 12000, "corner": 20000,
                 "polar": 6000, "sph": 6000, "cyl": 20000, "empty": 4000}
        per = 2500
    return common.shards(kinds, per_shard=per, tier=tier, seed=seed)


# ------------------------------------------------------------------ generation


def _gap_ok(centers, radii, periods, need):
    n = len(centers)
    for i in range(n):
        for j in range(i + 1, n):
            if geom.distance(centers[i], centers[j], periods) - radii[i] - radii[j] <= need:
                return False
    return True


def gen(rng, kind, tier):
    for _ in range(60):
        case = _gen_once(rng, kind, tier)
        if case is not None:
            return case
    return None


def _gen_once(rng, kind, tier):
    if kind == "empty":
        # no originals: no droplets, whatever the threshold rule (a rendered empty emulsion is a constant field)
        fam = str(rng.choice(["cart", "cart", "polar", "sph", "cyl"]))
        if fam == "cart":
            spec = geom.rand_cart_spec(rng, int(rng.integers(1, 4)), nmin=3, nmax=10)
        elif fam == "cyl":
            spec = geom.rand_cyl_spec(rng, nmin=3, nmax=10)
        else:
            spec = geom.rand_sym_spec(rng, fam, nmin=3, nmax=12)
        return {"grid": spec, "droplets": [], "threshold": str(rng.choice(["0.5", "auto", "extrema", "mean"]))}
    if kind in ("cart1", "cart2", "cart3", "corner"):
        dim = {"cart1": 1, "cart2": 2, "cart3": 3}.get(kind) or int(rng.integers(2, 4))
        big = tier == "thorough" and rng.random() < 0.15
        nmax = {1: 24, 2: 24, 3: 14}[dim]
        if big:
            nmax = {1: 60, 2: 40, 3: 20}[dim]
        periodic = None
        if kind == "corner":
            periodic = [True] * dim
            if rng.random() < 0.3:
                periodic[int(rng.integers(dim))] = False
        spec = geom.rand_cart_spec(rng, dim, nmin=6, nmax=nmax, periodic=periodic,
                                   aniso=rng.random() < 0.8)
        h = geom.spacing(spec)
        hn, hmax = float(np.linalg.norm(h)), float(h.max())
        b = np.asarray(spec["bounds"], float)
        L = b[:, 1] - b[:, 0]
        rmax = math.inf
        for a in range(dim):
            if spec["periodic"][a]:
                rmax = min(rmax, (L[a] - 2 * hmax - hn) / 2 * 0.999)
            else:
                rmax = min(rmax, L[a] / 2 * 0.999)
        rmin = 0.525 * hn
        if rmax <= rmin * 1.02:
            return None
        k = int(rng.integers(1, 5)) if kind != "corner" else int(rng.integers(1, 3))
        centers, radii = [], []
        periods = geom.cart_periodicity(spec)
        satellites = kind != "corner" and k >= 2 and rng.random() < 0.3
        for _i in range(k):
            if satellites and centers:
                # small satellites just beyond the required gap from a big droplet (strongly polydisperse emulsion)
                placed = False
                for _try in range(30):
                    Rs = float(rng.uniform(rmin, min(rmax, 1.5 * rmin)))
                    u = rng.normal(0, 1, dim)
                    u /= np.linalg.norm(u)
                    c = centers[0] + u * (radii[0] + Rs + (3 * hn + 2 * hmax) * 1.03)
                    inside = all(spec["periodic"][a] or (b[a, 0] + Rs * 1.000001 <= c[a] <= b[a, 1] - Rs * 1.000001) for a in range(dim))
                    if inside and _gap_ok(centers + [c], radii + [Rs], periods, 3 * hn + 2 * hmax):
                        centers.append(c)
                        radii.append(Rs)
                        placed = True
                        break
                if placed:
                    continue
            for _try in range(30):
                if satellites and not centers:
                    R = float(rng.uniform(0.6 * rmax, rmax)) if 0.6 * rmax > rmin else float(rng.uniform(rmin, rmax))
                elif kind == "corner" or rng.random() < 0.25:
                    R = float(rng.uniform(rmin, min(rmax, 1.8 * hn)))
                else:
                    R = float(rng.uniform(rmin, min(rmax, rmin + rng.uniform(0.2, 1.0) * (rmax - rmin))))
                c = np.empty(dim)
                mode = rng.random()
                for a in range(dim):
                    if spec["periodic"][a]:
                        if kind == "corner":
                            c[a] = b[a, int(rng.integers(2))] + rng.uniform(-0.9, 0.9) * h[a]
                        elif mode < 0.15:  # exactly on a cell centre
                            c[a] = b[a, 0] + (int(rng.integers(-3, spec["shape"][a] + 3)) + 0.5) * h[a]
                        else:
                            c[a] = rng.uniform(b[a, 0] - L[a], b[a, 0] + 2 * L[a])
                    else:
                        lo, hi = b[a, 0] + R * 1.000001, b[a, 1] - R * 1.000001
                        if lo >= hi:
                            c = None
                            break
                        if mode < 0.15:
                            idx = int(rng.integers(spec["shape"][a]))
                            x = b[a, 0] + (idx + 0.5) * h[a]
                            c[a] = x if lo <= x <= hi else rng.uniform(lo, hi)
                        else:
                            c[a] = rng.uniform(lo, hi)
                if c is None:
                    continue
                if _gap_ok(centers + [c], radii + [R], periods, 3 * hn + 2 * hmax):
                    centers.append(c)
                    radii.append(R)
                    break
        if not centers:
            return None
        drops = [list(map(float, c)) + [float(R)] for c, R in zip(centers, radii)]
        return {"grid": spec, "droplets": drops}

    if kind in ("polar", "sph"):
        spec = geom.rand_sym_spec(rng, kind, nmin=6, nmax=30 if tier == "quick" else 60)
        dr = geom.spacing(spec)[0]
        R = float(rng.uniform(0.525 * dr, spec["radius"]))
        dim = geom.space_dim(spec)
        if rng.random() < 0.25:
            # annular / shell-shaped grid (inner radius > 0) around a centred droplet that is larger than the hole
            u = spec.get("unit", 1.0)
            r_in = float(np.round(rng.uniform(0.5, 6.0) * dr / u, 3)) * u
            spec["radius"] = [r_in, r_in + dr * spec["shape"][0]]
            R = float(rng.uniform(r_in + 0.525 * dr, spec["radius"][1]))
        return {"grid": spec, "droplets": [[0.0] * dim + [R]]}

    if kind == "cyl":
        spec = geom.rand_cyl_spec(rng, nmin=6, nmax=24 if tier == "quick" else 36)
        h = geom.spacing(spec)
        hn, hmax = float(np.linalg.norm(h)), float(h.max())
        z0, z1 = spec["bounds_z"]
        Lz = z1 - z0
        rmin = 0.525 * hn
        rmax = min(spec["radius"] * 0.999, Lz / 2 * 0.999)
        if rmax <= rmin * 1.02:
            return None
        k = int(rng.integers(1, 4))
        periods = geom.cart_periodicity(spec)
        centers, radii = [], []
        for _i in range(k):
            for _try in range(30):
                R = float(rng.uniform(rmin, min(rmax, rmin + rng.uniform(0.1, 1.0) * (rmax - rmin))))
                lo, hi = z0 + R * 1.000001, z1 - R * 1.000001
                if lo >= hi:
                    continue
                if rng.random() < 0.15:
                    z = z0 + (int(rng.integers(spec["shape"][1])) + 0.5) * h[1]
                    if not lo <= z <= hi:
                        continue
                else:
                    z = float(rng.uniform(lo, hi))
                c = np.array([0.0, 0.0, z])
                if _gap_ok(centers + [c], radii + [R], periods, 3 * hn + 2 * hmax):
                    centers.append(c)
                    radii.append(R)
                    break
        if not centers:
            return None
        drops = [list(map(float, c)) + [float(R)] for c, R in zip(centers, radii)]
        return {"grid": spec, "droplets": drops}
    raise ValueError(kind)


# ------------------------------------------------------------------ oracle + monitor


def run(case, rec):
    import droplets
    from scipy import ndimage

    spec = case["grid"]
    grid = geom.make_grid(spec)
    fam = spec["family"]
    dim = geom.space_dim(spec)
    h = geom.spacing(spec)
    periods = geom.cart_periodicity(spec)
    vols = geom.cell_volumes(grid, spec)

    truth = []
    for row in case["droplets"]:
        c, R = np.asarray(row[:dim], float), float(row[dim])
        _, dist = geom.cell_distances(grid, spec, c)
        if geom.knife_edge(dist, R, 1e-9, float(h.min())):
            rec.count("knife_edge_regenerated")
            return
        covered = dist < R
        truth.append({"c": c, "R": R, "covered": covered, "V": float(vols[covered].sum()),
                      "pieces": int(ndimage.label(covered)[1])})
    if any(t["pieces"] == 0 for t in truth):
        rec.harness_error("C01: generator produced an unresolvable droplet")
        return

    em = droplets.Emulsion([droplets.SphericalDroplet(t["c"], t["R"]) for t in truth])
    if not truth:
        call = common.monitored(rec, "Emulsion.get_phasefield", em.get_phasefield, grid)
        if rec.check(call.ok, "no-exception", f"get_phasefield of an empty emulsion raised {call.exc!r}"):
            thr = case.get("threshold", "0.5")
            c2 = common.monitored(rec, "locate_droplets", droplets.locate_droplets, call.result,
                                  threshold=float(thr) if thr[0].isdigit() else thr)
            if rec.check(c2.ok, "no-exception", f"locate_droplets raised {c2.exc!r} on the render of an empty emulsion (threshold {thr})"):
                rec.check(len(c2.result) == 0, "count",
                          f"0 originals rendered, {len(c2.result)} droplets located with threshold={thr}: "
                          f"{[(list(map(float, d.position)), d.radius) for d in c2.result]}")
        rec.evaluated(nontrivial=False)
        rec.count("empty_emulsions")
        return
    call = common.monitored(rec, "Emulsion.get_phasefield", em.get_phasefield, grid)
    if not rec.check(call.ok, "no-exception", f"get_phasefield raised {call.exc!r}"):
        return
    field = call.result
    v_total = sum(t["V"] for t in truth)
    rec.check(abs(float(field.integral) - v_total) <= 1e-11 * v_total, "integral",
              f"field.integral={float(field.integral)!r} but covered cell volume={v_total!r}")

    call = common.monitored(rec, "locate_droplets", droplets.locate_droplets, field)
    if not rec.check(call.ok, "no-exception", f"locate_droplets raised {call.exc!r}"):
        return
    found = list(call.result)
    # the grid is shared input: analysing once more on the same grid object must give the same answer
    # ... also when options are given that cannot matter for this image: the rendered field only takes the values
    # 0 and 1 (thresholds 0.3, 0.7, 'auto' and 'extrema' give the same binary image as the default 0.5) and a
    # minimal radius below the smallest droplet removes nothing
    import zlib

    sel = zlib.crc32(repr(case["droplets"]).encode()) % 6
    extra = {}
    if sel in (1, 4):
        from droplets.tools import spherical

        r_small = min(float(spherical.radius_from_volume(t["V"], dim)) for t in truth)
        extra["minimal_radius"] = r_small * (0.35 + 0.1 * (zlib.crc32(repr(spec).encode()) % 6))
    if sel in (2, 4) and float(np.min(field.data)) == 0.0 and float(np.max(field.data)) == 1.0:
        extra["threshold"] = ["auto", "extrema", 0.3, 0.7][zlib.crc32(repr(spec["shape"]).encode()) % 4]
    if sel == 5:
        extra["refine"] = False
        extra["num_processes"] = 2
    rec.count("second_analysis_options:" + ",".join(sorted(extra)) if extra else "second_analysis_options:none")
    again = common.monitored(rec, "locate_droplets", droplets.locate_droplets, field, **extra)
    if rec.check(again.ok, "no-exception", f"a second locate_droplets call on the same field ({extra}) raised {again.exc!r}"):
        same = len(again.result) == len(found) and all(common.droplet_bytes(a_) == common.droplet_bytes(b_) for a_, b_ in zip(again.result, found))
        rec.check(same, "repeatable",
                  f"a second analysis of the same field on the same grid object (options {extra}, none of which can matter "
                  f"for this image) gives a different result: "
                  f"{[(list(map(float, d.position)), d.radius) for d in again.result]} vs {[(list(map(float, d.position)), d.radius) for d in found]}")

    aniso = float(h.max() / h.min()) > 1.05 if len(h) > 1 else False
    split = any(t["pieces"] >= 2 for t in truth)
    rec.evaluated(nontrivial=split or len(truth) >= 2 or aniso)
    rec.count(f"family:{geom.grid_label(spec)}")
    rec.count(f"droplets:{len(truth)}")
    for t in truth:
        rec.count(f"pieces:{t['pieces']}")

    ok = rec.check(len(found) == len(truth), "count",
                   f"{len(truth)} originals rendered, {len(found)} droplets located: "
                   f"{[(list(map(float, d.position)), d.radius) for d in found]}")

    # bijection by the per-axis half-cell bound
    if fam in ("polar", "sph"):
        h_axes = None
    elif fam == "cyl":
        h_axes = np.array([0.0, 0.0, h[1]])
    else:
        h_axes = h
    used = set()
    for t in truth:
        matches = []
        for j, d in enumerate(found):
            pos = np.asarray(d.position, float)
            if fam in ("polar", "sph"):
                good = bool(np.all(pos == 0)) and abs(d.radius - t["R"]) <= h[0] / 2 * (1 + POS_TOL)
            else:
                delta = np.abs(geom.min_image(pos - t["c"], periods))
                good = bool(np.all(delta <= h_axes / 2 * (1 + POS_TOL) + 1e-12))
                if fam == "cyl":
                    good = good and bool(pos[0] == 0 and pos[1] == 0)
            if good:
                matches.append(j)
        if not rec.check(len(matches) == 1 and matches[0] not in used, "position",
                         f"original c={t['c'].tolist()} R={t['R']} (pieces={t['pieces']}) has "
                         f"{len(matches)} located droplets within half a spacing; located="
                         f"{[(list(map(float, d.position)), d.radius) for d in found]}"):
            continue
        j = matches[0]
        used.add(j)
        d = found[j]
        if fam in ("polar", "sph") and isinstance(spec["radius"], (list, tuple)):
            # a grid with a hole has no cells where the droplet's core is: the droplet's volume is that of the full disc
            # or ball up to the outer edge of the covered cells (the radius clause above), not the covered cell volume
            rec.count("annular_grids")
            edge = geom.radial_range(spec)[0] + h[0] * int(np.count_nonzero(t["covered"]))
            rec.check(abs(d.radius - edge) <= 1e-9 * edge, "volume",
                      f"located radius {d.radius!r} is not the outer edge {edge!r} of the covered cells (inner radius "
                      f"{geom.radial_range(spec)[0]}, original R={t['R']})")
        else:
            rec.check(abs(d.volume / t["V"] - 1) <= VOL_RTOL, "volume",
                      f"located volume {d.volume!r} != covered cell volume {t['V']!r} "
                      f"(original c={t['c'].tolist()} R={t['R']})")
            rec.note_max("max_rel_volume_error", abs(d.volume / t["V"] - 1))
        rec.check(type(d).__name__ == "SphericalDroplet" and d.dim == dim, "class",
                  f"unrefined result is {type(d).__name__} dim {d.dim}")
    # positions inside the bounds along periodic axes
    if fam == "cart":
        b = np.asarray(spec["bounds"], float)
        for d in found:
            for a in range(dim):
                if spec["periodic"][a]:
                    La = b[a, 1] - b[a, 0]
                    rec.check(b[a, 0] - 1e-9 * La <= d.position[a] <= b[a, 1] + 1e-9 * La,
                              "in-bounds",
                              f"position {list(map(float, d.position))} outside bounds {b[a].tolist()} on periodic axis {a}")
    elif fam == "cyl" and spec["periodic_z"]:
        z0, z1 = spec["bounds_z"]
        for d in found:
            rec.check(z0 - 1e-9 * (z1 - z0) <= d.position[2] <= z1 + 1e-9 * (z1 - z0),
                      "in-bounds", f"z={float(d.position[2])} outside [{z0}, {z1}]")
    return ok


def run_shard(spec, rec):
    from droplets import image_analysis as ia

    rec.watch(ia._locate_droplets_in_mask_cartesian, ia._locate_droplets_in_mask_spherical,
              ia._locate_droplets_in_mask_cylindrical_single,
              ia._locate_droplets_in_mask_cylindrical, ia.locate_droplets)
    if spec["kind"] == "corner" and spec["start"] == 0:
        sentinels(rec)
    common.run_generated(spec, rec, gen, run, ID)


def sentinels(rec):
    """Deterministic regression cases for mechanisms repaired in /repo (no suppression)."""
    cases = [
        # D6: droplet on the corner of a fully periodic box with one empty quadrant (3 pieces)
        {"grid": {"family": "cart", "bounds": [[0, 8], [0, 8]], "shape": [8, 8],
                  "periodic": [True, True]}, "droplets": [[0.2, 0.25, 0.85]]},
        {"grid": {"family": "cart", "bounds": [[0, 6], [0, 7], [0, 8]], "shape": [6, 7, 8],
                  "periodic": [True, True, True]}, "droplets": [[0.2, 0.25, 7.8, 0.95]]},
        # D5: unrefined droplet on a cylindrical grid (half-cell offset in z)
        {"grid": {"family": "cyl", "radius": 8.0, "bounds_z": [-4.0, 12.0], "shape": [8, 16],
                  "periodic_z": False}, "droplets": [[0.0, 0.0, 3.3, 3.1]]},
        {"grid": {"family": "cyl", "radius": 8.0, "bounds_z": [-4.0, 12.0], "shape": [8, 16],
                  "periodic_z": True}, "droplets": [[0.0, 0.0, 3.3, 3.1]]},
    ]
    for c in cases:
        c["kind"] = "sentinel"
        with rec.case("sentinel", c):
            run(c, rec)


def replay(v, rec):
    with rec.case(v["kind"], v["case"]):
        run(v["case"], rec)
