"""C11 - merging droplets conserves volume and centre of mass.

Monitor: post-condition on ``DropletBase.merge`` (out-of-place and in-place) and on the
class attribute ``_merge_data`` called directly and from a numba-compiled function
(``NUMBA_BOUNDSCHECK=1``).  Oracle: V1+V2 and the volume-weighted mean computed from the
closed-form sphere volume.
"""

from __future__ import annotations

import math

import numpy as np

from . import common

ID = "C11"
ENV = {"NUMBA_BOUNDSCHECK": "1"}
RULE = (
    "cases = pairs (and trees of 3..8) of spherical/diffuse droplets in d=1..3 with radii "
    "log-uniform over 1e-3..1e3 (10 %: 1e-9..1e-3; one operand may have radius exactly 0), positions N(0,s) with s "
    "over 1e-2..1e2 plus offsets, widths incl. unset; each pair is merged out-of-place, in-place, "
    "through Class._merge_data and through a numba-compiled caller, the operands being obtained through "
    "a random route (constructor, copy, pickle round trip, deepcopy, from_data, emulsion member, linked data); trees are merged under two "
    "random groupings. Non-trivial = unequal volumes and distinct positions. Distinct = digest "
    "of the case."
)
ASSUMPTIONS = [
    "the statement's 'symbolically for all positive reals' cannot be decided by executions; the claim is numeric over >= 6 decades",
    "agreement between code paths is demanded to 8 ulp of the largest magnitude involved",
]
REQUIRED_MONITORS = {"post:volume-additive": 500, "post:centre-of-mass": 500, "post:paths-agree": 500,
                     "post:compiled-agrees": 50, "post:grouping-independent": 100}
MIN_NONTRIVIAL = 200
EPS = np.finfo(float).eps


def plan(tier, seed):
    if tier == "quick":
        kinds = {"pair": 16000, "tree": 3000, "compiled": 1800, "refined": 160, "linked": 1200}
        per = 2000
    else:
        kinds = {"pair": 1500000, "tree": 200000, "compiled": 60000, "refined": 4000, "linked": 60000}
        per = 50000
    sh = common.shards(kinds, per_shard=per, tier=tier, seed=seed)
    # compiled shards pay the numba compilation once each: keep them few
    return sh


def vol(r, dim):
    return {1: 2 * r, 2: math.pi * r * r, 3: 4 * math.pi / 3 * r ** 3}[dim]


def _drop(rng, dim, cls, *, zero=False):
    s = 10 ** rng.uniform(-2, 2)
    off = float(rng.choice([0.0, 0.0, 1e3, -50.0]))
    pos = [float(x) for x in rng.normal(off, s, dim)]
    R = 0.0 if zero else float(10 ** rng.uniform(-3, 3))
    if not zero and rng.random() < 0.1:
        R = float(10 ** rng.uniform(-9, -3))  # tiny droplets (e.g. micrometres expressed in metres)
    w = None
    if cls == "DiffuseDroplet":
        w = None if rng.random() < 0.2 else float(10 ** rng.uniform(-2, 1))
    return {"cls": cls, "pos": pos, "radius": R, "width": w, "amps": None}


def gen(rng, kind, tier):
    if kind == "refined":
        return {"dim": int(rng.choice([1, 2, 2, 3])), "seed": int(rng.integers(1 << 30)), "workers": bool(rng.random() < 0.15)}
    dim = int(rng.integers(1, 4))
    cls = str(rng.choice(["SphericalDroplet", "DiffuseDroplet"]))
    if kind in ("pair", "compiled"):
        z = rng.random()
        a = _drop(rng, dim, cls, zero=z < 0.04)
        b = _drop(rng, dim, cls, zero=0.04 <= z < 0.08)
        if rng.random() < 0.1 and a["radius"] > 0:
            b["radius"] = a["radius"]
        if rng.random() < 0.05:
            b["pos"] = list(a["pos"])
        case = {"a": a, "b": b, "route_a": common.pick_route(rng, 0.6), "route_b": common.pick_route(rng, 0.6)}
        if kind == "pair" and rng.random() < 0.04 and a["radius"] + b["radius"] > 0:
            case["a"], case["b"] = dict(a, cls="SphericalDroplet", width=None), dict(b, cls="SphericalDroplet", width=None)
            case["user_class"] = "ByDiameter"  # operands of a class the user derived from SphericalDroplet
            case["route_a"] = case["route_b"] = "ctor"
            return case
        if kind == "pair" and rng.random() < 0.05:
            # a spherical droplet absorbs a diffuse one: the second operand is an instance of the first one's class
            # (a diffuse droplet *is* a spherical droplet with one more parameter), so volume and centre are defined
            case["a"] = dict(a, cls="SphericalDroplet", width=None)
            case["b"] = dict(b, cls="DiffuseDroplet", width=float(10 ** rng.uniform(-2, 1)))
            case["subclass_operand"] = True
        if rng.random() < 0.15:
            # round 7 (C11_19): centres handed over as single-precision arrays (coordinates read from a float32 file);
            # the values are exactly representable, the merged centre is still the double-precision weighted mean
            for d in (case["a"], case["b"]):
                d["pos"] = [float(np.float32(x)) for x in d["pos"]]
                d["pos32"] = True
        return case
    n = int(rng.integers(3, 9))
    ds = [_drop(rng, dim, cls) for _ in range(n)]
    if rng.random() < 0.15:
        for d in ds:
            d["pos"] = [float(np.float32(x)) for x in d["pos"]]
            d["pos32"] = True
    return {"droplets": ds, "order_seed": int(rng.integers(1 << 30))}


def close(x, y, scale):
    return bool(np.all(np.abs(np.asarray(x, float) - np.asarray(y, float)) <= 8 * EPS * scale))


def _mk(d, route=None):
    from .c03 import make_droplet

    if d.get("pos32"):
        import droplets

        pos = np.asarray(d["pos"], np.float32)
        assert [float(x) for x in pos] == list(d["pos"])
        if d["cls"] == "SphericalDroplet":
            return common.via(droplets.SphericalDroplet(pos, d["radius"]), route)
        return common.via(droplets.DiffuseDroplet(pos, d["radius"], interface_width=d["width"]), route)
    return common.via(make_droplet(d), route)


def _state(d):
    w = getattr(d, "interface_width", None)
    return np.asarray(d.position, float).copy(), float(d.radius), (float("nan") if w is None else float(w))


def judge_user_class(case, rec):
    """Two droplets of a user-defined subclass (constructed from their diameter) merge like any spherical droplets."""
    from . import usercls

    da, db = case["a"], case["b"]
    a = usercls.ByDiameter(np.asarray(da["pos"], float), 2 * da["radius"])
    b = usercls.ByDiameter(np.asarray(db["pos"], float), 2 * db["radius"])
    dim = a.dim
    (pa, ra, _), (pb, rb, _) = _state(a), _state(b)
    Va, Vb = vol(ra, dim), vol(rb, dim)
    com = (Va * pa + Vb * pb) / (Va + Vb)
    scale = max(float(np.abs(pa).max()), float(np.abs(pb).max()), 1e-300)
    label = f"ByDiameter droplets a={da} b={db}"
    for name, kw in (("merge", {}), ("merge(inplace)", {"inplace": True})):
        x = usercls.ByDiameter(np.asarray(da["pos"], float), 2 * da["radius"])
        c = common.monitored(rec, name, x.merge, b, **kw)
        if rec.check(c.ok, "no-exception", f"{name} of two droplets of a user-defined subclass raised {common.exc_text(c.exc) if c.exc else ''}; {label}"):
            pm, rm, _ = _state(c.result)
            rec.check(type(c.result) is usercls.ByDiameter, "class", f"{name} returned {type(c.result).__name__}; {label}")
            rec.check(abs(vol(rm, dim) - Va - Vb) <= 1e-12 * (Va + Vb) and bool(np.all(np.abs(pm - com) <= 1e-12 * scale)), "volume-additive",
                      f"{name}: volume {vol(rm, dim)!r} at {pm.tolist()}, expected {Va + Vb!r} at {com.tolist()}; {label}")
    rec.count("operands_of_a_user_defined_subclass")
    rec.evaluated(nontrivial=(Va != Vb) and bool(np.any(pa != pb)))


def judge_pair(case, rec, compiled=None):
    if case.get("user_class"):
        return judge_user_class(case, rec)
    ra_, rb_ = case.get("route_a"), case.get("route_b")
    a, b = _mk(case["a"], ra_), _mk(case["b"], rb_)
    dim = a.dim
    ba, bb = common.droplet_bytes(a), common.droplet_bytes(b)
    (pa, ra, wa), (pb, rb, wb) = _state(a), _state(b)
    Va, Vb = vol(ra, dim), vol(rb, dim)
    V = Va + Vb
    label = f"a={case['a']} b={case['b']} obtained via {ra_}/{rb_}"
    rec.count(f"route:{ra_}")
    call = common.monitored(rec, "merge", a.merge, b)
    if not rec.check(call.ok, "no-exception", f"merge raised {common.exc_text(call.exc) if call.exc else ''}; {label}"):
        rec.evaluated(nontrivial=False)
        return
    m = call.result
    pm, rm, wm = _state(m)
    rec.check(type(m) is type(a), "class", f"merge returned {type(m).__name__}; {label}")
    rec.check(common.droplet_bytes(a) == ba and common.droplet_bytes(b) == bb, "operands-unchanged",
              f"out-of-place merge modified an operand; {label}")
    rec.check(abs(vol(rm, dim) - V) <= 1e-12 * V, "volume-additive",
              f"merged volume {vol(rm, dim)!r} != {Va!r} + {Vb!r}; {label}")
    com = (Va * pa + Vb * pb) / V
    scale = max(float(np.abs(pa).max()), float(np.abs(pb).max()), 1e-300)
    rec.check(bool(np.all(np.abs(pm - com) <= 1e-12 * scale)), "centre-of-mass",
              f"merged centre {pm.tolist()} != volume-weighted mean {com.tolist()}; {label}")
    if case["a"]["cls"] == "DiffuseDroplet":
        if math.isnan(wa) or math.isnan(wb):
            rec.check(math.isnan(wm), "width-mean", f"width {wm} from unset width(s); {label}")
        else:
            rec.check(abs(wm - (wa + wb) / 2) <= 1e-15 * max(wa, wb, 1e-300) * 4, "width-mean",
                      f"merged width {wm} != mean of {wa}, {wb}; {label}")
    if case.get("subclass_operand"):
        a2, b2 = _mk(case["a"], ra_), _mk(case["b"], rb_)
        c3 = common.monitored(rec, "merge(inplace)", a2.merge, b2, inplace=True)
        if rec.check(c3.ok, "no-exception", f"in-place merge raised {c3.exc!r}; {label}"):
            p3, r3, _w3 = _state(a2)
            rec.check(close(p3, pm, scale) and close(r3, rm, max(rm, 1e-300)), "paths-agree",
                      f"in-place ({p3.tolist()},{r3}) != out-of-place ({pm.tolist()},{rm}); {label}")
            rec.check(common.droplet_bytes(b2) == bb, "operands-unchanged", f"in-place merge modified the other operand; {label}")
        rec.count("spherical_droplet_absorbing_a_diffuse_one")
        rec.evaluated(nontrivial=(Va != Vb) and bool(np.any(pa != pb)))
        return
    # commutative
    m2 = common.monitored(rec, "merge", b.merge, a)
    if rec.check(m2.ok, "no-exception", f"b.merge(a) raised {m2.exc!r}; {label}"):
        p2, r2, w2 = _state(m2.result)
        ok = close(p2, pm, scale) and close(r2, rm, max(rm, 1e-300)) and (close(w2, wm, max(abs(wm), 1e-300)) or (math.isnan(w2) and math.isnan(wm)))
        rec.check(ok, "commutative", f"a.merge(b)=({pm.tolist()},{rm},{wm}) but b.merge(a)=({p2.tolist()},{r2},{w2}); {label}")
    # in-place
    a2, b2 = _mk(case["a"], ra_), _mk(case["b"], rb_)
    c3 = common.monitored(rec, "merge(inplace)", a2.merge, b2, inplace=True)
    if rec.check(c3.ok, "no-exception", f"in-place merge raised {c3.exc!r}; {label}"):
        rec.check(c3.result is a2, "inplace-returns-self", f"in-place merge returned another object; {label}")
        p3, r3, w3 = _state(a2)
        ok = close(p3, pm, scale) and close(r3, rm, max(rm, 1e-300)) and (close(w3, wm, max(abs(wm), 1e-300)) or (math.isnan(w3) and math.isnan(wm)))
        rec.check(ok, "paths-agree", f"in-place ({p3.tolist()},{r3},{w3}) != out-of-place ({pm.tolist()},{rm},{wm}); {label}")
        rec.check(common.droplet_bytes(b2) == bb, "operands-unchanged", f"in-place merge modified the other operand; {label}")
    # class attribute called directly, writing into a third record
    a4, b4 = _mk(case["a"], ra_), _mk(case["b"], rb_)
    out = np.record(np.zeros_like(a4.data))
    c4 = common.monitored(rec, "_merge_data", type(a4)._merge_data, a4.data, b4.data, out=out)
    if rec.check(c4.ok, "no-exception", f"_merge_data raised {c4.exc!r}; {label}"):
        m4 = type(a4).from_data(out)
        p4, r4, w4 = _state(m4)
        ok = close(p4, pm, scale) and close(r4, rm, max(rm, 1e-300)) and (close(w4, wm, max(abs(wm), 1e-300)) or (math.isnan(w4) and math.isnan(wm)))
        rec.check(ok, "paths-agree", f"_merge_data ({p4.tolist()},{r4},{w4}) != merge ({pm.tolist()},{rm},{wm}); {label}")
        rec.check(common.droplet_bytes(a4) == ba and common.droplet_bytes(b4) == bb, "operands-unchanged",
                  f"_merge_data modified an operand; {label}")
    # ---- aliasing: the output may be any of the operands (documented in-place use is out=first operand;
    # the merge function itself takes an arbitrary out record)
    a5, b5 = _mk(case["a"], ra_), _mk(case["b"], rb_)
    c5 = common.monitored(rec, "_merge_data(out=second)", type(a5)._merge_data, a5.data, b5.data, out=b5.data)
    if rec.check(c5.ok, "no-exception", f"_merge_data(a, b, out=b) raised {c5.exc!r}; {label}"):
        p5, r5, w5 = _state(b5)
        ok = close(p5, pm, scale) and close(r5, rm, max(rm, 1e-300)) and (close(w5, wm, max(abs(wm), 1e-300)) or (math.isnan(w5) and math.isnan(wm)))
        rec.check(ok, "paths-agree", f"_merge_data(a, b, out=b) gives ({p5.tolist()},{r5},{w5}), merge gives ({pm.tolist()},{rm},{wm}); {label}")
        rec.check(common.droplet_bytes(a5) == ba, "operands-unchanged", f"_merge_data(a, b, out=b) modified a; {label}")
    if Va > 0:
        a6 = _mk(case["a"], ra_)
        c6 = common.monitored(rec, "merge(self, inplace)", a6.merge, a6, inplace=True)
        if rec.check(c6.ok, "no-exception", f"a.merge(a, inplace=True) raised {c6.exc!r}; {label}"):
            p6, r6, _w6 = _state(a6)
            rec.check(abs(vol(r6, dim) - 2 * Va) <= 1e-12 * 2 * Va and bool(np.all(np.abs(p6 - pa) <= 1e-12 * scale)), "volume-additive",
                      f"merging a droplet with itself in place gives volume {vol(r6, dim)!r} at {p6.tolist()}, expected {2 * Va!r} at {pa.tolist()}; {label}")
    if compiled is not None:
        # the merge function the class publishes (`cls._merge_data`) is meant for compiled code as well
        g = _compiled_attr(type(a))
        arr_g = np.recarray(3, dtype=a.data.dtype)
        arr_g[0], arr_g[1] = _mk(case["a"]).data, _mk(case["b"]).data
        arr_g[2] = np.zeros_like(a.data)
        cg = common.monitored(rec, "compiled(cls._merge_data)", g, arr_g, 0, 1, 2)
        if rec.check(cg.ok, "no-exception", f"calling {type(a).__name__}._merge_data from compiled code raised {str(cg.exc)[:160] if cg.exc else ''}; {label}"):
            pg, rg, wg = _state(type(a).from_data(arr_g[2]))
            okg = close(pg, pm, scale) and close(rg, rm, max(rm, 1e-300)) and (close(wg, wm, max(abs(wm), 1e-300)) or (math.isnan(wg) and math.isnan(wm)))
            rec.check(okg, "compiled-agrees", f"cls._merge_data in compiled code ({pg.tolist()},{rg},{wg}) != python ({pm.tolist()},{rm},{wm}); {label}")
        f = compiled(type(a), a.data.dtype)
        arr = np.recarray(3, dtype=a.data.dtype)
        arr[0], arr[1] = _mk(case["a"]).data, _mk(case["b"]).data
        arr[2] = np.zeros_like(a.data)
        c5 = common.monitored(rec, "compiled-merge", f, arr, 0, 1, 2)
        if rec.check(c5.ok, "no-exception", f"compiled merge raised {c5.exc!r}; {label}"):
            m5 = type(a).from_data(arr[2])
            p5, r5, w5 = _state(m5)
            ok = close(p5, pm, scale) and close(r5, rm, max(rm, 1e-300)) and (close(w5, wm, max(abs(wm), 1e-300)) or (math.isnan(w5) and math.isnan(wm)))
            rec.check(ok, "compiled-agrees", f"compiled ({p5.tolist()},{r5},{w5}) != python ({pm.tolist()},{rm},{wm}); {label}")
            rec.check(arr[0].tobytes() == a.data.tobytes() and arr[1].tobytes() == b.data.tobytes(), "operands-unchanged",
                      f"compiled merge modified an operand; {label}")
        # the compiled path with the output aliasing the second operand
        arr[0], arr[1] = _mk(case["a"]).data, _mk(case["b"]).data
        c7 = common.monitored(rec, "compiled-merge", f, arr, 0, 1, 1)
        if rec.check(c7.ok, "no-exception", f"compiled merge (out = second operand) raised {c7.exc!r}; {label}"):
            p7, r7, w7 = _state(type(a).from_data(arr[1]))
            ok = close(p7, pm, scale) and close(r7, rm, max(rm, 1e-300)) and (close(w7, wm, max(abs(wm), 1e-300)) or (math.isnan(w7) and math.isnan(wm)))
            rec.check(ok, "compiled-agrees", f"compiled merge with out = second operand ({p7.tolist()},{r7},{w7}) != python ({pm.tolist()},{rm},{wm}); {label}")
        # in-place through the compiled path (out aliases the first operand)
        arr[0], arr[1] = _mk(case["a"]).data, _mk(case["b"]).data
        c6 = common.monitored(rec, "compiled-merge", f, arr, 0, 1, 0)
        if rec.check(c6.ok, "no-exception", f"compiled in-place merge raised {c6.exc!r}; {label}"):
            p6, r6, w6 = _state(type(a).from_data(arr[0]))
            ok = close(p6, pm, scale) and close(r6, rm, max(rm, 1e-300)) and (close(w6, wm, max(abs(wm), 1e-300)) or (math.isnan(w6) and math.isnan(wm)))
            rec.check(ok, "compiled-agrees", f"compiled in-place ({p6.tolist()},{r6},{w6}) != python ({pm.tolist()},{rm},{wm}); {label}")
    rec.evaluated(nontrivial=(Va != Vb) and bool(np.any(pa != pb)))
    rec.count(f"dim:{dim}|{case['a']['cls']}")
    if ra == 0 or rb == 0:
        rec.count("one_operand_radius_zero")


_attr_kernels: dict = {}


def _compiled_attr(cls):
    """A jitted kernel that calls the class attribute ``cls._merge_data`` on rows of a record array."""
    if cls not in _attr_kernels:
        import numba as nb

        merge = cls._merge_data

        @nb.njit
        def kernel(arr, i, j, k):
            merge(arr[i], arr[j], arr[k])

        _attr_kernels[cls] = kernel
    return _attr_kernels[cls]


def judge_tree(case, rec):
    ds = case["droplets"]
    dim = len(ds[0]["pos"])
    objs = [_mk(d) for d in ds]
    vols = np.array([vol(d["radius"], dim) for d in ds])
    V = float(vols.sum())
    com = (vols[:, None] * np.array([d["pos"] for d in ds])).sum(axis=0) / V
    scale = max(float(np.abs(np.array([d["pos"] for d in ds])).max()), 1e-300)
    r = np.random.default_rng(case["order_seed"])
    results = []
    for trial in range(3):
        pool = [o.copy() for o in objs]
        inplace = trial == 1
        while len(pool) > 1:
            if trial == 2:  # left fold in order
                i, j = 0, 1
            else:
                i, j = sorted(r.choice(len(pool), 2, replace=False))
            x, y = pool[i], pool[j]
            c = common.monitored(rec, "merge", x.merge, y, inplace=inplace)
            if not c.ok:
                rec.check(False, "no-exception", f"merge raised {c.exc!r} in a tree; {case}")
                return
            pool = [p for k, p in enumerate(pool) if k not in (i, j)] + [c.result]
        results.append(pool[0])
    for t, m in enumerate(results):
        rec.check(abs(vol(m.radius, dim) - V) <= 1e-11 * V and
                  bool(np.all(np.abs(np.asarray(m.position) - com) <= 1e-11 * scale)), "grouping-independent",
                  f"grouping {t}: total volume {vol(m.radius, dim)!r} vs {V!r}, centre {list(map(float, m.position))} vs "
                  f"{com.tolist()}; droplets={ds}")
    rec.evaluated(nontrivial=True)
    rec.count(f"tree_size:{len(ds)}")


def judge_linked(case, rec):
    """Compiled code merges droplets through the array that Emulsion.get_linked_data() ties to the droplets of an
    emulsion.  One emulsion is coarsened into its first droplet by a mixture of the three paths (droplet.merge in
    place, the class's merge function on rows of the linked array, a compiled kernel on the linked array) - possibly
    after a member was exchanged and the emulsion was linked again - and must end, seen through its droplets, with
    the total volume at the centre of mass, exactly like merging out of place."""
    import droplets

    ds = case["droplets"]
    dim = len(ds[0]["pos"])
    r = np.random.default_rng(case["order_seed"])
    em = droplets.Emulsion([_mk(d) for d in ds])
    cls = type(em[0])
    data = em.get_linked_data()
    n = len(em)
    history = ["linked"]
    if r.random() < 0.5:
        k = int(r.integers(0, n))
        new = em[k].copy()
        new.radius = float(new.radius * r.uniform(1.5, 3.0))
        new.position = np.asarray(new.position) + r.normal(0, 1.0 + abs(new.radius), dim)
        how = int(r.integers(0, 3))
        if how == 0:
            em[k] = new
        elif how == 1:
            em.pop(k)
            em.insert(k, new)
        else:
            del em[k]
            em.append(new)
        history.append(f"member {k} exchanged ({['setitem', 'pop+insert', 'del+append'][how]})")
        if r.random() < 0.85:
            data = em.get_linked_data()
            history.append("linked again")
        else:
            data = None  # the emulsion was not linked again: only the droplets' own merge is used below
    members = [d.copy() for d in em]
    vols = np.array([vol(float(d.radius), dim) for d in members])
    V = float(vols.sum())
    com = (vols[:, None] * np.array([np.asarray(d.position, float) for d in members])).sum(axis=0) / V
    scale = max(float(np.abs(np.array([np.asarray(d.position, float) for d in members])).max()), 1e-300)
    f = compiled_merge(cls, em[0].data.dtype)
    for j in range(1, n):
        path = int(r.integers(0, 3)) if data is not None else 0
        if path == 0:
            c = common.monitored(rec, "merge(inplace)", em[0].merge, em[j], inplace=True)
        elif path == 1:
            rows = data.view(np.recarray)
            c = common.monitored(rec, "_merge_data", cls._merge_data, rows[0], rows[j], out=rows[0])
        else:
            c = common.monitored(rec, "compiled-merge", f, data, 0, j, 0)
        history.append(["droplet.merge(inplace)", "_merge_data on linked rows", "compiled kernel on linked array"][path])
        if not rec.check(c.ok, "no-exception", f"{history[-1]} raised {c.exc!r}; droplets={ds} steps={history}"):
            return
    m = em[0]
    rec.check(abs(vol(float(m.radius), dim) - V) <= 1e-11 * V and
              bool(np.all(np.abs(np.asarray(m.position, float) - com) <= 1e-11 * scale)), "paths-agree",
              f"coarsening a linked emulsion into its first droplet: that droplet has volume {vol(float(m.radius), dim)!r} at "
              f"{list(map(float, m.position))}, expected {V!r} at {com.tolist()}; steps={history} droplets={ds}")
    if data is not None:
        rec.check(abs(vol(float(data[0]['radius']), dim) - V) <= 1e-11 * V and
                  bool(np.all(np.abs(np.asarray(data[0]['position'], float) - com) <= 1e-11 * scale)), "paths-agree",
                  f"coarsening a linked emulsion into its first droplet: row 0 of the linked array has volume "
                  f"{vol(float(data[0]['radius']), dim)!r} at {np.asarray(data[0]['position'], float).tolist()}, expected {V!r} at "
                  f"{com.tolist()}; steps={history} droplets={ds}")
    rec.evaluated(nontrivial=True)
    rec.count("linked:" + ("exchanged" if len(history) > 1 and "exchanged" in history[1] else "plain"))


_compiled_cache: dict = {}


def compiled_merge(cls, dtype):
    """numba-compiled caller of the class's merge function (records of one array)."""
    key = (cls.__name__, str(dtype))
    f = _compiled_cache.get(key)
    if f is None:
        import numba as nb

        merge = cls._make_merge_data()

        @nb.njit
        def f(arr, i, j, k):
            merge(arr[i], arr[j], arr[k])

        _compiled_cache[key] = f
    return f


def judge_refined(case, rec):
    """Operands that come out of the image analysis (refined droplets) are droplets like any other:
    merging them must conserve volume and centre of mass as well."""
    import droplets
    import pde

    r = np.random.default_rng(case["seed"])
    dim = case["dim"]
    n = {1: 48, 2: 28, 3: 14}[dim]
    grid = pde.UnitGrid([n] * dim, periodic=bool(r.integers(0, 2)))
    Ra, Rb = float(r.uniform(2.5, 3.5)), float(r.uniform(2.0, 3.0))
    ca = np.full(dim, n * 0.27) + r.uniform(-0.5, 0.5, dim)
    cb = np.full(dim, n * 0.72) + r.uniform(-0.5, 0.5, dim)
    em = droplets.Emulsion([droplets.DiffuseDroplet(ca, Ra, 0.9), droplets.DiffuseDroplet(cb, Rb, 1.1)])
    field = em.get_phasefield(grid)
    kw = {"num_processes": 2} if case.get("workers") else {}
    ra_opt = [None, {"adjust_values": True}, {"vmin": None, "vmax": None, "adjust_values": True}, {"vmin": None, "vmax": None},
              {"tolerance": 1e-6}][case["seed"] % 5]
    if ra_opt is not None:
        kw["refine_args"] = dict(ra_opt)  # every way of fitting the intensity levels gives droplets like any other
    loc = common.monitored(rec, "locate_droplets(refine)", droplets.locate_droplets, field, refine=True, **kw)
    if not loc.ok or len(loc.result) != 2:
        rec.count("refined_operands_not_available")  # locating is C05's/C09's subject
        return
    a, b = loc.result[0], loc.result[1]
    label = f"operands returned by locate_droplets(refine=True, {kw}) on a {dim}-d grid: {a} and {b}"
    (pa, ra, wa), (pb, rb, wb) = _state(a), _state(b)
    Va, Vb = vol(ra, dim), vol(rb, dim)
    com = (Va * pa + Vb * pb) / (Va + Vb)
    ba = common.droplet_bytes(b)
    c = common.monitored(rec, "merge", a.merge, b)
    if rec.check(c.ok, "no-exception", f"merge raised {common.exc_text(c.exc) if c.exc else ''}; {label}"):
        pm, rm, wm = _state(c.result)
        rec.check(abs(vol(rm, dim) - Va - Vb) <= 1e-12 * (Va + Vb), "volume-additive", f"merged volume {vol(rm, dim)!r} != {Va!r}+{Vb!r}; {label}")
        rec.check(bool(np.all(np.abs(pm - com) <= 1e-12 * n)), "centre-of-mass", f"merged centre {pm.tolist()} != {com.tolist()}; {label}")
        c2 = common.monitored(rec, "merge(inplace)", a.merge, b, inplace=True)
        if rec.check(c2.ok, "no-exception", f"in-place merge raised {common.exc_text(c2.exc) if c2.exc else ''}; {label}"):
            p3, r3, w3 = _state(a)
            rec.check(close(p3, pm, n) and close(r3, rm, rm), "paths-agree", f"in-place ({p3.tolist()},{r3}) != out-of-place ({pm.tolist()},{rm}); {label}")
            rec.check(common.droplet_bytes(b) == ba, "operands-unchanged", f"in-place merge modified the other operand; {label}")
    rec.evaluated(nontrivial=True)
    rec.count(f"refined_operands:dim{dim}")


def run(case, rec):
    if case["kind"] == "refined":
        judge_refined(case, rec)
        return
    if case["kind"] == "linked":
        judge_linked(case, rec)
        return
    if case["kind"] == "pair":
        judge_pair(case, rec)
    elif case["kind"] == "compiled":
        judge_pair(case, rec, compiled=compiled_merge)
    else:
        judge_tree(case, rec)


def run_shard(spec, rec):
    from droplets import droplets as dmod

    rec.watch(dmod.DropletBase.merge)
    rec.note("numba_boundscheck", __import__("os").environ.get("NUMBA_BOUNDSCHECK"))
    common.run_generated(spec, rec, gen, run, ID)


def replay(v, rec):
    with rec.case(v["kind"], v["case"]):
        run(v["case"], rec)
