"""C19 - the requested droplet model determines the class and shape of every result.

Monitor: post-condition on ``locate_droplets`` parameterised by the request.  The space of
requests (grid family x dimension x periodicity x modes x width given/not x refine on/off x
threshold rule) is finite and enumerated completely; the field content is varied (variants).
"""

from __future__ import annotations

import itertools
import zlib

import numpy as np

from ..oracles import geom
from . import common

ID = "C19"
RULE = (
    "complete enumeration of 18 grids (Cartesian d=1..3 x every periodicity mask, polar, "
    "spherical, cylindrical +- periodic z) x modes 0..4 x width {None, 0.75, 0 (sharp)} x refine {off, on} "
    "x threshold {0.5, auto, mean, otsu} = 2160 request configurations, each on field variants "
    "(A: one droplet, B: two droplets of different size, C [Cartesian 2-D/3-D]: strongly "
    "anisotropic grid with a two-cell cluster next to an ordinary droplet; thorough: two more "
    "random contents). A case is non-trivial if at least one droplet is returned (so that the "
    "class clause is not vacuous). Distinct = digest of (configuration, variant)."
)
ASSUMPTIONS = [
    "modes > 0 in one dimension must raise ValueError (documented) instead of returning droplets",
    "field contents are chosen so that at least one droplet is found; configurations returning none are counted, not judged",
]
REQUIRED_MONITORS = {"post:class": 1000, "post:amplitude-count": 300, "post:width-carried": 200, "post:tabular-data": 1000}
MIN_NONTRIVIAL = 1000

THRESHOLDS = ["0.5", "auto", "mean", "otsu"]


def grids():
    out = []
    for dim in (1, 2, 3):
        for pm in geom.all_periodic_masks(dim):
            out.append(("cart", dim, pm))
    out += [("polar", 2, None), ("sph", 3, None), ("cyl", 3, [False]), ("cyl", 3, [True])]
    return out


def configs():
    for (fam, dim, pm), modes, width, refine, thr in itertools.product(grids(), range(5), (None, 0.75, 0.0), (False, True), THRESHOLDS):
        yield {"family": fam, "dim": dim, "pmask": pm, "modes": modes, "width": width, "refine": refine, "threshold": thr}


def plan(tier, seed):
    allc = list(configs())
    variants = ["A", "B", "C"] if tier == "quick" else ["A", "B", "C", "R1", "R2"]
    out = []
    chunk = 60 if tier == "quick" else 90
    for v in variants:
        for start in range(0, len(allc), chunk):
            out.append({"name": f"configs-{v}#{start}", "kind": "configs", "variant": v, "start": start,
                        "n": min(chunk, len(allc) - start), "total": len(allc), "seed": seed, "tier": tier,
                        "timeout_s": 3000})
    return out


def grid_spec(cfg, variant, seed):
    fam, dim = cfg["family"], cfg["dim"]
    if fam == "cart":
        n = {1: 24, 2: 14, 3: 9}[dim]
        h = [1.0] * dim
        shape = [n] * dim
        if variant == "C" and dim >= 2:
            h = [1.0] + [0.1] * (dim - 1)
            shape = [10] + [30] * (dim - 1) if dim == 2 else [8, 24, 24]
        elif variant == "B":
            h = [0.8, 1.1, 0.9][:dim]
        return {"family": "cart", "bounds": [[0.0, h[a] * shape[a]] for a in range(dim)], "shape": shape,
                "periodic": [bool(p) for p in cfg["pmask"]]}
    if fam in ("polar", "sph"):
        return {"family": fam, "radius": 12.0, "shape": [16]}
    return {"family": "cyl", "radius": 7.0, "bounds_z": [-6.0, 8.0], "shape": [9, 18], "periodic_z": bool(cfg["pmask"][0])}


def field_data(spec, cfg, variant, seed):
    """Rendered content (via the package's own renderer; its correctness is C03's subject)."""
    import droplets

    grid = geom.make_grid(spec)
    fam, dim = cfg["family"], cfg["dim"]
    r = np.random.default_rng([seed, hash(variant) % 1000, dim])
    drops = []
    if fam == "cart":
        b = np.asarray(spec["bounds"], float)
        L = b[:, 1] - b[:, 0]
        if variant == "C" and dim >= 2:
            R = 0.35 * float(L[1:].min())
            c = b[:, 0] + L * 0.5
            c[0] = b[0, 0] + 0.3 * L[0]
            drops.append(droplets.DiffuseDroplet(c, min(R, 0.25 * L[0]), 0.3))
        else:
            drops.append(droplets.DiffuseDroplet(b[:, 0] + L * (0.35 if variant != "A" else 0.5), 0.18 * float(L.min()), 0.8))
            if variant != "A":
                drops.append(droplets.DiffuseDroplet(b[:, 0] + L * 0.78, 0.1 * float(L.min()), 0.6))
        if variant.startswith("R"):
            drops = [droplets.DiffuseDroplet(b[:, 0] + L * r.uniform(0.3, 0.7, dim), float(r.uniform(0.1, 0.2)) * float(L.min()), 0.7)]
    elif fam in ("polar", "sph"):
        drops.append(droplets.DiffuseDroplet(np.zeros(dim), 5.0 if not variant.startswith("R") else float(r.uniform(3, 8)), 0.9))
    else:
        drops.append(droplets.DiffuseDroplet([0, 0, 0.5], 3.0 if not variant.startswith("R") else float(r.uniform(2, 4)), 0.8))
        if variant != "A":
            drops.append(droplets.DiffuseDroplet([0, 0, -3.9 if variant == "B" else 5.0], 1.6, 0.6))
    data = np.asarray(droplets.Emulsion(drops).get_phasefield(grid).data, float)
    if variant == "C" and fam == "cart" and dim >= 2:
        # a two-cell cluster along the coarse axis, far from the droplet
        idx = [spec["shape"][0] - 3] + [2] * (dim - 1)
        data[tuple(idx)] = 1.0
        idx[0] += 1
        data[tuple(idx)] = 1.0
    return grid, data


def expected_class(cfg):
    if cfg["modes"] > 0:
        if cfg["dim"] == 2:
            return "PerturbedDroplet2D"
        return "PerturbedDroplet3DAxisSym" if cfg["family"] == "cyl" else "PerturbedDroplet3D"
    if cfg["width"] is not None or cfg["refine"]:
        return "DiffuseDroplet"
    return "SphericalDroplet"


_SHARED_LSQ: dict = {"max_nfev": 400}


def run(case, rec):
    import droplets
    from pde import ScalarField

    cfg, variant = case["config"], case["variant"]
    spec = grid_spec(cfg, variant, case["seed"])
    grid, data = field_data(spec, cfg, variant, case["seed"])
    thr = cfg["threshold"]
    kwargs = {"threshold": float(thr) if thr[0].isdigit() else thr, "modes": cfg["modes"],
              "interface_width": cfg["width"], "refine": cfg["refine"]}
    if cfg["refine"] and case.get("workers"):
        kwargs["num_processes"] = 2  # the number of worker processes is not part of the requested model
        rec.count("refined_with_worker_processes")
    label = f"config={cfg} variant={variant}"
    if case.get("pixel") == "bool":
        # the same content as a binary image with boolean pixels; the requested model decides the class as before
        _SF = ScalarField

        def ScalarField(g, a):  # noqa: N802
            return _SF(g, np.asarray(a) > 0.5, dtype=bool)

        rec.count("images_with_boolean_pixels")
        label += " boolean pixels"
    if cfg["refine"] and case.get("shared_options"):
        # one dictionary of solver options serves every refining request of the session (whatever model it asks for)
        kwargs["refine_args"] = {"least_squares_params": _SHARED_LSQ}
        rec.count("requests_sharing_one_least_squares_params_dict")
        label += " least_squares_params shared with earlier requests"
    if case.get("numpy_modes"):
        # the mode count as a numpy integer (e.g. taken from an array of settings or from len() of an array shape)
        kwargs["modes"] = [np.int64, np.int32, np.intp, np.uint8][case["numpy_modes"] % 4](cfg["modes"])
        rec.count("mode_count_given_as_numpy_integer")
        label += f" modes given as {type(kwargs['modes']).__name__}"
    if case.get("mr_between") and cfg["refine"] and not (cfg["modes"] > 0 and cfg["dim"] == 1):
        # a minimal radius between the thresholding estimate and the fitted radius of the smallest droplet (both read
        # from an unjudged preview): the request then decides about that droplet - whatever is returned has the class
        # the request implies
        pre = common.monitored(rec, "preview:locate_droplets", lambda: (
            droplets.locate_droplets(ScalarField(grid, data), **{**kwargs, "refine": False}),
            droplets.locate_droplets(ScalarField(grid, data), **kwargs)))
        if pre.ok and len(pre.result[0]) and len(pre.result[0]) == len(pre.result[1]):
            est, fit = pre.result
            i0 = int(np.argmin([d.radius for d in est]))
            j0 = int(np.argmin([np.linalg.norm(np.asarray(d.position) - np.asarray(est[i0].position)) for d in fit]))
            if est[i0].radius != fit[j0].radius:
                kwargs["minimal_radius"] = float((est[i0].radius + fit[j0].radius) / 2)
                rec.count("minimal_radius_between_estimate_and_fit")
                label += f" minimal_radius={kwargs['minimal_radius']!r}"
    if case.get("via_tracker") and cfg["width"] is None and "minimal_radius" not in kwargs:
        # the same request made through a droplet tracker (the route a simulation takes)
        def through_tracker():
            tr = droplets.DropletTracker(1, threshold=kwargs["threshold"], refine=cfg["refine"], perturbation_modes=cfg["modes"])
            tr.handle(ScalarField(grid, data), 0.0)
            return tr.data.emulsions[0]

        call = common.monitored(rec, "DropletTracker.handle", through_tracker)
        rec.count("requests_made_through_a_tracker")
        label += " requested through DropletTracker"
    else:
        call = common.monitored(rec, "locate_droplets", droplets.locate_droplets, ScalarField(grid, data), **kwargs)
    if cfg["modes"] > 0 and cfg["dim"] == 1:
        rec.check(not call.ok and type(call.exc) is ValueError, "documented-error",
                  f"modes > 0 in 1-D: expected ValueError, got {repr(call.exc) if not call.ok else repr(call.result)}; {label}")
        rec.evaluated(nontrivial=True)
        return
    if not rec.check(call.ok, "no-exception", f"locate_droplets raised {common.exc_text(call.exc) if call.exc else ''}; {label}"):
        rec.evaluated(nontrivial=True)
        return
    em = call.result
    want = expected_class(cfg)
    if len(em) == 0:
        rec.count("configurations_without_droplets")
    for d in em:
        rec.check(type(d).__name__ == want, "class", f"result droplet is {type(d).__name__}, the request implies {want}; {label}")
        rec.check(d.dim == grid.dim, "dimension", f"droplet dimension {d.dim} != grid dimension {grid.dim}; {label}")
        if cfg["modes"] > 0 and hasattr(d, "amplitudes"):
            rec.check(len(d.amplitudes) == cfg["modes"], "amplitude-count",
                      f"{len(d.amplitudes)} amplitudes for modes={cfg['modes']}; {label}")
        if cfg["width"] is not None and not cfg["refine"]:
            w = getattr(d, "interface_width", None)
            rec.check(w == cfg["width"], "width-carried", f"unrefined droplet has interface width {w}, supplied {cfg['width']}; {label}")
    dtypes = {str(d.data.dtype) for d in em}
    rec.check(len(dtypes) <= 1, "one-layout", f"result mixes data layouts {sorted(dtypes)}; {label}")
    c2 = common.monitored(rec, "Emulsion.data", lambda: em.data)
    ok = c2.ok and (len(em) == 0 or str(c2.result.dtype.descr) == str(em[0].data.dtype.descr)) and (not c2.ok or len(c2.result) == len(em))
    if len(em) == 0:
        ok = True  # a result without droplets has no rows to tabulate (the library refuses to guess a layout then)
    rec.check(ok, "tabular-data",
              f"Emulsion.data {'raised ' + repr(c2.exc) if not c2.ok else 'has dtype ' + str(c2.result.dtype)} "
              f"(members: {sorted(dtypes)}); {label}")
    rec.evaluated(nontrivial=len(em) >= 1)
    rec.count(f"class:{want}|n={min(len(em), 3)}")


def run_shard(spec, rec):
    from droplets import droplets as dmod
    from droplets import image_analysis as ia

    rec.watch(ia.locate_droplets, ia.refine_droplet, dmod.DropletBase.from_droplet)
    allc = list(configs())
    name = f"request-configurations[{spec['variant']}]"
    rec.space(name, spec["total"], 0)
    done = 0
    if spec["variant"] in ("B", "R1"):
        prelude(rec)
    for i in range(spec["start"], spec["start"] + spec["n"]):
        # requests on other grid families in between: what an earlier request asked for must not
        # influence the class of later results (no state may be shared between calls)
        interfere(i, rec)
        case = {"kind": "configs", "config": allc[i], "variant": spec["variant"], "seed": spec["seed"]}
        if (i * 3 + spec["seed"]) % 5 == 2:
            case["numpy_modes"] = 1 + (i + spec["seed"]) % 4
        if (i + spec["seed"]) % 3 == 0:
            case["shared_options"] = True
        if allc[i]["refine"] and (i * 11 + spec["seed"]) % 6 == 1:
            case["mr_between"] = True
        if allc[i]["refine"] and (i * 7 + spec["seed"]) % 16 == 3:
            case["workers"] = True
        elif allc[i]["width"] is None and (i * 5 + spec["seed"]) % 4 == 1:
            case["via_tracker"] = True
        if allc[i]["threshold"][0].isdigit() and zlib.crc32(f"bool{i}-{spec['seed']}".encode()) % 3 == 0:
            case["pixel"] = "bool"  # round 7 (C19_19): a binary image (segmentation mask) stored with boolean pixels
        with rec.case("configs", case):
            try:
                run(case, rec)
            except Exception as e:  # noqa: BLE001
                rec.harness_error(f"config {i}", e)
        done += 1
    rec.space(name, spec["total"], done)


_pool: list = []


def prelude(rec):
    """What a session may have done before the first request: droplets of every class created by hand in their
    simplest form (perturbed classes without amplitudes) and drawn once.  Nothing of this may influence the class
    or the shape of droplets that are located later."""
    import pde
    from droplets import droplets

    try:
        for cls, pos, grid in [(droplets.PerturbedDroplet2D, [4.0, 4.0], pde.UnitGrid([8, 8])),
                               (droplets.PerturbedDroplet3D, [3.0, 3.0, 3.0], pde.UnitGrid([6, 6, 6])),
                               (droplets.PerturbedDroplet3DAxisSym, [0.0, 0.0, 3.0], pde.CylindricalSymGrid(4.0, (0.0, 6.0), (4, 6))),
                               (droplets.DiffuseDroplet, [3.0], pde.UnitGrid([6])),
                               (droplets.SphericalDroplet, [3.0, 3.0], pde.UnitGrid([6, 6]))]:
            cls(pos, 2.0).get_phase_field(grid)
        rec.hit("prelude:droplets-created-by-hand-first")
    except Exception as e:  # noqa: BLE001
        rec.harness_error("prelude", e)


def interfere(i, rec):
    """Unjudged request on another grid family (cycled), with modes and a width."""
    import droplets
    import pde

    if not _pool:
        def blob(grid, pos, R):
            return droplets.DiffuseDroplet(pos, R, 0.8).get_phase_field(grid)

        g = pde.CylindricalSymGrid(5.0, (0.0, 8.0), (6, 10))
        _pool.append((blob(g, [0, 0, 4.0], 2.5), 2))
        g = pde.UnitGrid([7, 7, 7])
        _pool.append((blob(g, [3.4, 3.6, 3.5], 2.2), 3))
        g = pde.UnitGrid([10, 10], periodic=True)
        _pool.append((blob(g, [5.2, 4.9], 3.0), 1))
        g = pde.SphericalSymGrid(6.0, 8)
        _pool.append((blob(g, [0, 0, 0], 3.0), 2))
        g = pde.CylindricalSymGrid(5.0, (0.0, 8.0), (6, 10), periodic_z=True)
        _pool.append((blob(g, [0, 0, 4.0], 2.0), 1))
    field, modes = _pool[i % len(_pool)]
    try:
        droplets.locate_droplets(field, modes=modes, interface_width=[None, 0.5][i % 2])
        rec.hit("interfering-requests")
    except Exception:  # noqa: BLE001 - not the subject here (C09 covers it)
        rec.count("interfering_request_raised")


def replay(v, rec):
    if v["case"].get("variant") in ("B", "R1"):
        prelude(rec)  # the process history of these variants
    with rec.case(v["kind"], v["case"]):
        run(v["case"], rec)
