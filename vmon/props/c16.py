"""C16 - the structure factor is a normalised, symmetry-invariant power spectrum.

Monitor: post-condition on ``get_structure_factor``.  Oracle: the oracle's own dense DFT
(direct evaluation of sum_x f(x) exp(-i k.x), d=1 and small d=2) as an absolute reference,
Parseval's identity, and metamorphic relations (scaling, whole-cell rolls, reflections, joint
axis permutations, box stretching) compared as sorted (k, S) multisets.
"""

from __future__ import annotations

import itertools
import math

import numpy as np

from ..oracles import geom
from . import common

ID = "C16"
RULE = (
    "cases = scalar fields (noise +- offset, plane waves, rendered emulsions, single spikes, "
    "fields of tiny/huge total power 1e-9..1e6) on fully periodic Cartesian grids d=1..3 with even "
    "and odd shapes 2..12 (3-D 2..7), anisotropic spacing 0.2..3 and random origins; each checked "
    "for non-negativity, Parseval, the exact DFT wave numbers, invariance under scaling (incl. "
    "negative), rolls, reflections, joint axis permutation, and box stretching; the smoothed "
    "variant for returning the requested wave numbers, sharing the invariances, and add_zero. "
    "Non-trivial = >=2 axes with different cell counts or spacings, or a 1-D field with >=5 cells. "
    "Distinct = digest of the case."
)
ASSUMPTIONS = [
    "numpy.fft is only used by the code under test; the reference is the oracle's own dense DFT for grids of <= 144 cells",
    "metamorphic comparisons use sorted (k, S) multisets with tolerance 1e-10 relative to max S",
]
REQUIRED_MONITORS = {"post:parseval": 500, "post:wave-numbers": 500, "post:dft-reference": 200, "post:invariance": 500,
                     "post:smoothed-wavenumbers": 100, "post:add-zero": 100}
MIN_NONTRIVIAL = 200


def plan(tier, seed):
    if tier == "quick":
        kinds = {"raw": 4000, "smooth": 900, "big": 2}
        per = 500
    else:
        kinds = {"raw": 250000, "smooth": 40000, "big": 48}
        per = 8000
    return common.shards(kinds, per_shard=per, tier=tier, seed=seed)


def gen(rng, kind, tier):
    if kind == "big":
        # grids of the size of real simulations (10^5 cells) with the default smoothing and wave numbers
        dim = int(rng.choice([2, 2, 3]))
        shape = [int(rng.integers(280, 340)), int(rng.integers(240, 300))] if dim == 2 else [int(rng.integers(40, 52)) for _ in range(3)]
        h = [float(np.round(rng.uniform(0.5, 2.0), 3)) for _ in range(dim)]
        if rng.random() < 0.5:
            shape, h = [shape[-1]] * dim, [h[0]] * dim  # a square / cubic box: many modes share their wave number exactly
        spec = {"family": "cart", "bounds": [[0.0, h[a] * shape[a]] for a in range(dim)], "shape": shape, "periodic": [True] * dim}
        return {"grid": spec, "field": {"type": "wave", "seed": int(rng.integers(1 << 30)),
                                        "m": [int(rng.integers(3, 12))] + [int(rng.integers(0, 3)) for _ in range(dim - 1)],
                                        "amp": 1.0, "offset": 0.3, "phase": float(rng.uniform(0, 6.28))},
                "perm_seed": int(rng.integers(1 << 30))}
    dim = int(rng.choice([1, 2, 2, 3]))
    nmax = {1: 12, 2: 12, 3: 7}[dim]
    spec = geom.rand_cart_spec(rng, dim, nmin=2, nmax=nmax, hmin=0.2, hmax=3.0, periodic=[True] * dim)
    if dim <= 2 and rng.random() < 0.3:
        # larger sizes, among them primes and sizes with large prime factors (13, 17, 19, 23, 26, 29, 31, 34, 37)
        big = [13, 17, 19, 23, 26, 29, 31, 34, 37, 16, 20, 25, 27, 32]
        a = int(rng.integers(dim))
        n_new = int(rng.choice(big))
        b = np.asarray(spec["bounds"], float)
        h_a = (b[a, 1] - b[a, 0]) / spec["shape"][a]
        spec["shape"][a] = n_new
        spec["bounds"][a] = [float(b[a, 0]), float(b[a, 0] + h_a * n_new)]
    if kind == "smooth" and dim >= 2 and rng.random() < 0.3:
        # square / cubic boxes with equal spacings: symmetry-related modes have exactly the same wave number
        n0, b0 = spec["shape"][0], spec["bounds"][0]
        spec["shape"] = [n0] * dim
        spec["bounds"] = [[float(b[0]), float(b[0] + (b0[1] - b0[0]))] for b in spec["bounds"]]
    t = str(rng.choice(["noise", "noise-offset", "wave", "emulsion", "spike", "small", "large"]))
    f = {"type": t, "seed": int(rng.integers(1 << 30))}
    if t == "wave":
        f["m"] = [int(rng.integers(-(n // 2), n // 2 + 1)) for n in spec["shape"]]
        f["amp"] = float(rng.uniform(0.1, 3))
        f["offset"] = float(rng.choice([0.0, 0.5, -2.0]))
        f["phase"] = float(rng.uniform(0, 2 * math.pi))
    pixel_type = str(rng.choice(["uint8", "uint16", "int16", "int32", "int64"])) if (kind == "raw" and rng.random() < 0.2) else None
    case = {"grid": spec, "field": f, "pixel_type": pixel_type, "scale": float(rng.choice([-1.0, 2.0, 0.25, -7.5, 1e-4, 1e3])),
            "roll": [int(rng.integers(-n, n + 1)) for n in spec["shape"]],
            "stretch": float(rng.choice([0.5, 2.0, 3.0, 0.1, 10.0])), "perm_seed": int(rng.integers(1 << 30))}
    if kind == "smooth":
        case["smoothing"] = "auto" if rng.random() < 0.5 else float(rng.uniform(0.05, 1.0))
        wn = [float(x) for x in rng.uniform(0.05, 6.0, int(rng.integers(1, 8)))]
        order = rng.random()
        if order < 0.4:
            wn = sorted(wn)
        elif order < 0.6:
            wn = sorted(wn, reverse=True)
        elif order < 0.8 and len(wn) >= 2:
            wn = wn + [wn[0]]  # unordered, with a repeated value
        if rng.random() < 0.15:
            wn = [0.0] + [w for w in sorted(wn)]  # a request that starts at exactly 0
        case["wave_numbers"] = wn
    return case


def make_data(spec, f):
    shape = tuple(spec["shape"])
    r = np.random.default_rng(f["seed"])
    t = f["type"]
    if t == "noise":
        return r.normal(0, 1, shape)
    if t == "noise-offset":
        return r.normal(0, 1, shape) + float(r.choice([0.5, 3.0, -10.0]))
    if t == "wave":
        idx = np.indices(shape)
        ph = sum(2 * math.pi * m * idx[a] / shape[a] for a, m in enumerate(f["m"]))
        return f["offset"] + f["amp"] * np.cos(ph + f["phase"])
    if t == "emulsion":
        data = np.zeros(shape)
        idx = np.indices(shape)
        for _ in range(int(r.integers(1, 4))):
            c = [r.uniform(0, n) for n in shape]
            rad = r.uniform(0.8, 3.0)
            d2 = sum(np.minimum(np.abs(idx[a] + 0.5 - c[a]), shape[a] - np.abs(idx[a] + 0.5 - c[a])) ** 2 for a in range(len(shape)))
            data += 0.5 + 0.5 * np.tanh((rad - np.sqrt(d2)) / 0.7)
        return np.clip(data, 0, 1)
    if t == "spike":
        data = np.zeros(shape)
        data[tuple(int(r.integers(n)) for n in shape)] = 1.0
        return data
    if t == "small":
        return r.normal(0.3, 1, shape) * float(r.choice([1e-5, 1e-7, 1e-9]))
    return r.normal(0.3, 1, shape) * 1e6


def field_of(spec, data, dtype=None):
    from pde import ScalarField

    if dtype is not None:
        return ScalarField(geom.make_grid(spec), np.asarray(data).astype(dtype), dtype=dtype)
    return ScalarField(geom.make_grid(spec), np.asarray(data, float))


def dft_reference(spec, data):
    """(k magnitudes, S) from a direct DFT, zero mode dropped; O(N^2)."""
    shape = tuple(spec["shape"])
    h = geom.spacing(spec)
    N = data.size
    idx = np.indices(shape).reshape(len(shape), -1).T  # (N, d) cell indices
    ks, S = [], []
    norm = float(np.sum(data * data))
    flat = data.reshape(-1)
    for m in itertools.product(*[range(n) for n in shape]):
        if not any(m):
            continue
        phase = np.zeros(N)
        for a, (mm, n) in enumerate(zip(m, shape)):
            phase += 2 * math.pi * mm * idx[:, a] / n
        amp = np.sum(flat * np.exp(-1j * phase))
        mf = [mm if mm <= (n - 1) // 2 or (n % 2 == 0 and mm == n // 2 and False) else mm - n for mm, n in zip(m, shape)]
        # magnitude of the wave vector: |2 pi m_a / L_a| with the signed (aliased) index; sign irrelevant
        kv = [2 * math.pi * min(mm, n - mm) / (h[a] * n) for a, (mm, n) in enumerate(zip(m, shape))]
        ks.append(math.sqrt(sum(k * k for k in kv)))
        S.append(abs(amp) ** 2 / N / norm)
    return np.array(ks), np.array(S)


def multiset(k, s):
    order = np.lexsort((np.round(s, 14), np.round(k, 10)))
    return np.asarray(k)[order], np.asarray(s)[order]


def same_spectrum(k1, s1, k2, s2, rtol=1e-10):
    if len(k1) != len(k2):
        return False, "different lengths"
    a, b = multiset(k1, s1), multiset(k2, s2)
    # sort S within groups of equal k to be robust against ties
    smax = max(float(np.max(np.abs(s1), initial=0)), 1e-300)
    if not np.allclose(a[0], b[0], rtol=1e-12, atol=0):
        return False, "wave numbers differ"
    ka = np.round(a[0] / max(a[0].max(), 1e-300), 10)
    sa = np.array([x for _, x in sorted(zip(ka, a[1]))])
    sb = np.array([x for _, x in sorted(zip(ka, b[1]))])
    err = float(np.max(np.abs(sa - sb), initial=0))
    # S is normalised (sum <= 1), so an absolute floor of 1e-13 is far below any real effect
    return err <= rtol * smax + 1e-13, f"max |dS| = {err} (max S {smax})"


def run(case, rec):
    import droplets

    spec = case["grid"]
    shape = tuple(spec["shape"])
    dim = len(shape)
    data = make_data(spec, case["field"])
    if not np.any(data):
        rec.count("zero_field_skipped")
        return
    h = geom.spacing(spec)
    label = f"grid={spec} field={case['field']}"
    sf = droplets.get_structure_factor
    kind = case["kind"]
    if kind == "big":
        data = data + 0.05 * np.random.default_rng(case["perm_seed"]).normal(size=shape)  # not a pure wave
        c = common.monitored(rec, "get_structure_factor", sf, field_of(spec, data))
        if not rec.check(c.ok, "no-exception", f"get_structure_factor raised {common.exc_text(c.exc) if c.exc else ''}; {label}"):
            rec.evaluated(nontrivial=False)
            return
        k, s = (np.asarray(x, float) for x in c.result)
        smax = max(float(np.nanmax(np.abs(s), initial=0)), 1e-300)
        perm = list(range(dim))[::-1] if dim == 2 else [1, 2, 0]
        sp2 = {"family": "cart", "bounds": [spec["bounds"][p_] for p_ in perm], "shape": [spec["shape"][p_] for p_ in perm],
               "periodic": [True] * dim}
        roll = [int(n // 3) for n in shape]
        for name, sp_v, arr in ((f"permute axes {perm}", sp2, np.ascontiguousarray(np.transpose(data, perm))),
                                (f"roll by {roll}", spec, np.roll(data, roll, axis=tuple(range(dim)))),
                                ("scale by -3", spec, -3.0 * data)):
            cc = common.monitored(rec, "get_structure_factor", sf, field_of(sp_v, arr))
            if rec.check(cc.ok, "no-exception", f"{name}: raised {cc.exc!r}; {label}"):
                k2, s2 = (np.asarray(x, float) for x in cc.result)
                rec.check(k2.shape == k.shape and bool(np.allclose(k2, k, rtol=1e-12, atol=0)) and
                          bool(np.allclose(s2, s, rtol=0, atol=1e-9 * smax + 1e-13, equal_nan=True)), "invariance",
                          f"smoothed structure factor of a {shape} grid (default smoothing and wave numbers) changes under "
                          f"'{name}' by {float(np.nanmax(np.abs(s2 - s))) if s2.shape == s.shape else 'shape'} (max S {smax}); {label}")
        rec.evaluated(nontrivial=True)
        rec.count(f"big:dim{dim}|cells:{int(np.prod(shape)) // 10000 * 10000}+")
        return
    if kind == "raw":
        px = None
        if case.get("pixel_type"):
            # grey values of a camera image: whole numbers in the upper part of the type's range (float64 copy for the oracle)
            px = np.dtype(case["pixel_type"])
            span = float(np.ptp(data)) or 1.0
            if px.kind in "iu":
                top = min(int(np.iinfo(px).max), 60000)
                data = np.round((data - float(data.min())) / span * min(200, top - 30)) + (top - 230 if top > 400 else 25)
            else:
                data = data.astype(px).astype(float)
            if not np.any(data):
                return
            rec.count(f"pixel_type:{px.name}")
        the_field = field_of(spec, data, px)
        keep = np.array(the_field.data, dtype=float, copy=True)
        c = common.monitored(rec, "get_structure_factor", sf, the_field, smoothing=None)
        rec.check(np.array_equal(np.asarray(the_field.data, float), keep) and np.array_equal(np.asarray(data, float), keep)
                  and (px is None or the_field.data.dtype == px), "input-unchanged",
                  f"get_structure_factor modified the field it was given; {label}")
        data = keep  # later relations start from the original values
        if not rec.check(c.ok, "no-exception", f"get_structure_factor raised {common.exc_text(c.exc) if c.exc else ''}; {label}"):
            rec.evaluated(nontrivial=False)
            return
        k, s = (np.array(x, float, copy=True) for x in c.result)
        # the returned arrays belong to the caller: overwriting them must not influence later calls
        for arr in c.result:
            if isinstance(arr, np.ndarray) and arr.flags.writeable:
                arr[...] = -1.0
                rec.hit("scribbled-results")
        rec.check(k.shape == s.shape == (data.size - 1,), "shape", f"returned shapes {k.shape}, {s.shape} for {data.size} cells; {label}")
        rec.check(bool(np.all(s >= 0)), "non-negative", f"negative structure factor {float(s.min())}; {label}")
        mean = float(data.mean())
        total = 1 - mean * mean / float(np.mean(data * data))
        rec.check(abs(float(s.sum()) - total) <= 1e-12 * max(1.0, abs(total)) + 1e-12, "parseval",
                  f"sum S = {float(s.sum())!r} but 1 - mean^2/mean(f^2) = {total!r}; {label}")
        # exact DFT wave numbers of the grid, in the order of the flattened transform
        kk = [2 * math.pi * np.fft.fftfreq(n, d=1.0) / hh for n, hh in zip(shape, h)]
        kref = np.sqrt(sum(np.meshgrid(*[x * x for x in kk], indexing="ij"))).reshape(-1)[1:]
        rec.check(bool(np.allclose(k, kref, rtol=1e-13, atol=0)), "wave-numbers",
                  f"wave numbers differ from |2 pi fftfreq| of the grid (in transform order): max rel err "
                  f"{float(np.max(np.abs(k - kref) / np.maximum(kref, 1e-300))) if k.shape == kref.shape else 'shape'}; {label}")
        # "no smoothing" can be asked for in several ways (None, "none", a width of zero): the same arrays come back
        off = [0, 0.0, "none"][case["perm_seed"] % 3]
        cz = common.monitored(rec, "get_structure_factor", sf, field_of(spec, data), smoothing=off)
        if rec.check(cz.ok, "no-exception", f"smoothing={off!r} raised {common.exc_text(cz.exc) if cz.exc else ''}; {label}"):
            rec.check(np.array_equal(np.asarray(cz.result[0], float), k) and np.array_equal(np.asarray(cz.result[1], float), s),
                      "unsmoothed-variants", f"smoothing={off!r} does not return the unsmoothed structure factor; {label}")
        if data.size <= 144:
            kd, sd = dft_reference(spec, data)
            ok, why = same_spectrum(k, s, kd, sd, rtol=1e-9)
            rec.check(ok, "dft-reference", f"differs from the dense DFT reference: {why}; {label}")
            # element-wise pairing (k_i, S_i) must also match, not only the multisets
            rec.check(bool(np.allclose(np.sort(s * (1 + k)), np.sort(sd * (1 + kd)), rtol=1e-8, atol=1e-13)),
                      "dft-reference", f"(k, S) pairing differs from the dense DFT reference; {label}")
        # --- metamorphic relations
        def spectrum(sp, arr):
            cc = common.monitored(rec, "get_structure_factor", sf, field_of(sp, arr), smoothing=None)
            return cc

        rels = []
        rels.append(("scale by %g" % case["scale"], spec, data * case["scale"], 1.0))
        rels.append(("roll by %s" % case["roll"], spec, np.roll(data, case["roll"], axis=tuple(range(dim))), 1.0))
        ax = int(np.random.default_rng(case["perm_seed"]).integers(dim))
        rels.append((f"reflect axis {ax}", spec, np.flip(data, axis=ax), 1.0))
        if dim > 1:
            perm = list(np.random.default_rng(case["perm_seed"]).permutation(dim))
            sp2 = {"family": "cart", "bounds": [spec["bounds"][p] for p in perm], "shape": [spec["shape"][p] for p in perm],
                   "periodic": [True] * dim}
            rels.append((f"permute axes {perm}", sp2, np.transpose(data, perm), 1.0))
        cst = case["stretch"]
        sp3 = {"family": "cart", "bounds": [[b[0] * cst, b[0] * cst + (b[1] - b[0]) * cst] for b in spec["bounds"]],
               "shape": spec["shape"], "periodic": [True] * dim}
        rels.append((f"stretch box by {cst}", sp3, data, cst))
        for name, sp, arr, kfac in rels:
            cc = spectrum(sp, arr)
            if not rec.check(cc.ok, "no-exception", f"{name}: raised {cc.exc!r}; {label}"):
                continue
            k2, s2 = (np.asarray(x, float) for x in cc.result)
            ok, why = same_spectrum(k, s, k2 * kfac, s2)
            rec.check(ok, "invariance", f"structure factor changes under '{name}': {why}; {label}")
        aniso = dim > 1 and (len(set(shape)) > 1 or float(h.max() / h.min()) > 1.05)
        rec.evaluated(nontrivial=aniso or (dim == 1 and shape[0] >= 5))
        rec.count(f"raw:dim{dim}|{case['field']['type']}")
        return
    # ---- smoothed variant
    wn = case["wave_numbers"]
    sm = case["smoothing"]
    c = common.monitored(rec, "get_structure_factor", sf, field_of(spec, data), smoothing=sm, wave_numbers=wn)
    if not rec.check(c.ok, "no-exception", f"smoothed structure factor raised {common.exc_text(c.exc) if c.exc else ''}; {label}"):
        rec.evaluated(nontrivial=False)
        return
    k, s = (np.asarray(x, float) for x in c.result)
    rec.check(k.shape == s.shape == (len(wn),) and bool(np.array_equal(k, np.asarray(wn))), "smoothed-wavenumbers",
              f"requested wave numbers {wn}, got {k.tolist()}; {label}")
    # whole-number wave numbers may be handed over as integers (a range, an integer array); all arguments may be positional
    wn_int = [float(i) for i in range(1, 1 + min(5, max(2, int(max(wn)))))]
    ci = common.monitored(rec, "get_structure_factor", sf, field_of(spec, data), smoothing=sm, wave_numbers=wn_int)
    for form, arg in (("list of ints", [int(x) for x in wn_int]), ("range", range(1, 1 + len(wn_int))), ("integer array", np.arange(1, 1 + len(wn_int)))):
        cj = common.monitored(rec, "get_structure_factor", sf, field_of(spec, data), smoothing=sm, wave_numbers=arg)
        if rec.check(ci.ok and cj.ok, "no-exception", f"integer wave numbers ({form}) raised {cj.exc!r} / {ci.exc!r}; {label}"):
            rec.check(np.array_equal(np.asarray(cj.result[0], float), np.asarray(wn_int)) and
                      bool(np.allclose(np.asarray(cj.result[1], float), np.asarray(ci.result[1], float), rtol=1e-12, atol=0, equal_nan=True)),
                      "smoothed-wavenumbers", f"wave numbers given as {form} give {np.asarray(cj.result[1]).tolist()[:4]} at "
                      f"{np.asarray(cj.result[0]).tolist()[:4]}, the same numbers as floats give {np.asarray(ci.result[1]).tolist()[:4]}; {label}")
    # round 7 (C16_20): the flag as programs produce it - the result of a comparison on numpy data is a numpy bool
    flag = bool(data.size) if int(np.sum(spec["shape"])) % 2 else (np.asarray(data).size > 0) & np.bool_(True)
    rec.count(f"add_zero_flag_type:{type(flag).__name__}")
    cp = common.monitored(rec, "get_structure_factor", sf, field_of(spec, data), sm, wn, True)
    c0 = common.monitored(rec, "get_structure_factor", sf, field_of(spec, data), smoothing=sm, wave_numbers=wn, add_zero=flag)
    if rec.check(cp.ok and c0.ok, "no-exception", f"positional call raised {cp.exc!r}; {label}"):
        rec.check(all(np.array_equal(np.asarray(x, float), np.asarray(y, float), equal_nan=True) for x, y in zip(cp.result, c0.result)), "add-zero",
                  f"get_structure_factor(field, smoothing, wave_numbers, True) differs from the call with keywords; {label}")
    if rec.check(c0.ok, "no-exception", f"add_zero raised {c0.exc!r}; {label}"):
        k0, s0 = (np.asarray(x, float) for x in c0.result)
        ok = k0.shape == (len(wn) + 1,) and k0[0] == 0 and s0[0] == 1 and np.array_equal(k0[1:], k) and np.allclose(s0[1:], s, rtol=1e-12, atol=0, equal_nan=True)
        rec.check(bool(ok), "add-zero", f"add_zero does not prepend (0, 1) to the same values: k={k0.tolist()} S={s0.tolist()} vs {s.tolist()}; {label}")
    cr = common.monitored(rec, "get_structure_factor", sf, field_of(spec, data), smoothing=None, add_zero=flag)
    if cr.ok:
        k1, s1 = (np.asarray(x, float) for x in cr.result)
        rec.check(k1[0] == 0 and s1[0] == 1 and len(k1) == data.size, "add-zero", f"raw add_zero wrong: {k1[:2]}, {s1[:2]}; {label}")
    smax = max(float(np.nanmax(np.abs(s), initial=0)), 1e-300)
    variants = [("scale", spec, data * case["scale"]), ("roll", spec, np.roll(data, case["roll"], axis=tuple(range(dim)))),
                ("reflect", spec, np.flip(data, axis=0))]
    if dim > 1:
        perm = list(np.random.default_rng(case["perm_seed"]).permutation(dim))
        if perm == sorted(perm):
            perm = perm[::-1]
        sp2 = {"family": "cart", "bounds": [spec["bounds"][p_] for p_ in perm], "shape": [spec["shape"][p_] for p_ in perm],
               "periodic": [True] * dim}
        variants.append((f"permute axes {perm}", sp2, np.transpose(data, perm)))
    for name, sp_v, arr in variants:
        cc = common.monitored(rec, "get_structure_factor", sf, field_of(sp_v, arr), smoothing=sm, wave_numbers=wn)
        if rec.check(cc.ok, "no-exception", f"{name}: raised {cc.exc!r}; {label}"):
            s2 = np.asarray(cc.result[1], float)
            rec.check(bool(np.allclose(s2, s, rtol=0, atol=1e-10 * smax + 1e-13, equal_nan=True)), "invariance",
                      f"smoothed structure factor changes under '{name}' by {float(np.nanmax(np.abs(s2 - s)))}; {label}")
    # stretching the box: same values at wave numbers scaled by 1/c (smoothing width scaled alike)
    if not isinstance(sm, str):
        cst = case["stretch"]
        sp3 = {"family": "cart", "bounds": [[b[0] * cst, b[0] * cst + (b[1] - b[0]) * cst] for b in spec["bounds"]],
               "shape": spec["shape"], "periodic": [True] * dim}
        cc = common.monitored(rec, "get_structure_factor", sf, field_of(sp3, data), smoothing=sm / cst, wave_numbers=[w / cst for w in wn])
        if rec.check(cc.ok, "no-exception", f"stretch: raised {cc.exc!r}; {label}"):
            s2 = np.asarray(cc.result[1], float)
            rec.check(bool(np.allclose(s2, s, rtol=0, atol=1e-9 * smax + 1e-13, equal_nan=True)), "invariance",
                      f"smoothed structure factor does not scale with the box (stretch {cst}): {float(np.nanmax(np.abs(s2 - s)))}; {label}")
    rec.evaluated(nontrivial=True)
    rec.count(f"smooth:dim{dim}|{'auto' if isinstance(sm, str) else 'number'}")


def run_shard(spec, rec):
    from droplets import image_analysis as ia

    rec.watch(ia.get_structure_factor)
    common.run_generated(spec, rec, gen, run, ID)


def replay(v, rec):
    with rec.case(v["kind"], v["case"]):
        run(v["case"], rec)
