"""Droplet classes as a user of the library would define them (subclasses of the library's classes).

Imported lazily (after ``core.bootstrap()``), but defined at module level so that pickling - and worker processes
started with any multiprocessing context - can find them by name.  The statements quantify over droplets of "every
class"; a class derived by the user *is* one of the library's classes and has to be treated through its own
(overridable) methods.
"""

from __future__ import annotations

import numpy as np
from droplets.droplets import DiffuseDroplet, SphericalDroplet


class ByDiameter(SphericalDroplet):
    """A spherical droplet that is constructed from its diameter."""

    __slots__ = ["data"]

    def __init__(self, position, diameter):
        super().__init__(position, diameter / 2)


class Squashed(DiffuseDroplet):
    """A diffuse droplet whose image is squashed along the first axis (an ellipse / ellipsoid with semi-axes
    ``stretch * radius`` and ``radius``); only for Cartesian grids.  The factor is a class attribute that a
    session may configure at run time."""

    __slots__ = ["data"]
    stretch = 1.3

    def _get_phase_field(self, grid, dtype=np.double):
        diff = np.array(grid.cell_coords, dtype=float) - np.asarray(self.position, float)
        diff[..., 0] /= type(self).stretch
        dist = np.linalg.norm(diff, axis=-1)
        if np.dtype(dtype) == np.dtype(bool):
            return dist < self.radius
        w = self.interface_width
        if w is None:
            w = grid.typical_discretization
        if w == 0:
            return (dist < self.radius).astype(dtype)
        return (0.5 + 0.5 * np.tanh((self.radius - dist) / w)).astype(dtype)
