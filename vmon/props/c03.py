"""C03 - a rendered phase field is a faithful, finite picture of the droplet.

Monitor: post-condition on ``droplet.get_phase_field(grid, vmin=, vmax=)`` (all five
classes) and on ``Emulsion.get_phasefield(grid)``.
Oracle: own min-image difference vectors of the cell centres, own harmonic series
(oracles/harmonics.py); metamorphic relations roll <-> translate and member permutation.
"""

from __future__ import annotations

import itertools
import math

import numpy as np

from ..oracles import geom, harmonics
from . import common

ID = "C03"
RULE = (
    "cases = one droplet (class x grid family x width kind None/0/positive x amplitudes x "
    "centre mode random/on-cell-centre/outside-the-box x vmin<vmax) or an emulsion of 0..5 "
    "droplets, on Cartesian d=1..3 grids with all periodicity masks and anisotropic spacing, "
    "polar, spherical and cylindrical grids. Non-trivial = the interface cuts the grid (some "
    "cells inside and some outside) for droplet cases; >=2 members with overlapping support "
    "for emulsion cases. Distinct = digest of (grid spec, droplet parameters, levels)."
)
ASSUMPTIONS = [
    "cell-centre positions from py-pde (axes_coords, grid->cartesian transform) are trusted",
    "the periodic metric is the oracle's own minimum image",
    "cells within 1e-9 (relative) of the interface are knife-edges and skipped by the midpoint/indicator clauses",
    "amplitudes keep the body star-shaped about its centre: either sum|a_k| max|Y_k| < 0.9 or (strongly deformed cases, single "
    "amplitudes up to 1) the interface distance sampled over 720 / 91x180 directions stays >= 0.15 R",
    "periodic cylindrical grids: clauses that depend on wrapped distances are only asserted where the "
    "Euclidean and the periodic distance agree (known finding pde-cyl-periodic-metric)",
]
REQUIRED_MONITORS = {"post:finite": 100, "post:midpoint": 100, "post:range": 100}
MIN_NONTRIVIAL = 50

CLASSES = ["SphericalDroplet", "DiffuseDroplet", "PerturbedDroplet2D", "PerturbedDroplet3D",
           "PerturbedDroplet3DAxisSym"]
KNOWN_KEY = "pde-cyl-periodic-metric"
KNOWN_WHAT = ("periodic cylindrical grid: rendering measures distances with py-pde 0.58's "
              "CylindricalSymGrid.difference_vector, which wraps the Cartesian y axis instead of z, so "
              "a droplet straddling the periodic z boundary is not wrapped (witness: sphere at z=0.2, "
              "R=1.2 on a 3x6 grid with z in [0,6))")


def plan(tier, seed):
    if tier == "quick":
        kinds = {"single": 5000, "roll": 1200, "emulsion": 1200}
        per = 400
    else:
        kinds = {"single": 250000, "roll": 50000, "emulsion": 50000}
        per = 6000
    return common.shards(kinds, per_shard=per, tier=tier, seed=seed)


# ------------------------------------------------------------------ generation


def _rand_grid(rng, dim, tier):
    """Random grid spec embedding dimension `dim`."""
    fams = {1: ["cart"], 2: ["cart", "cart", "cart", "polar"],
            3: ["cart", "cart", "sph", "cyl", "cyl"]}[dim]
    fam = str(rng.choice(fams))
    if fam == "cart":
        nmax = {1: 24, 2: 12, 3: 7}[dim]
        return geom.rand_cart_spec(rng, dim, nmin=3, nmax=nmax)
    if fam in ("polar", "sph"):
        return geom.rand_sym_spec(rng, fam, nmin=3, nmax=16)
    return geom.rand_cyl_spec(rng, nmin=3, nmax=10)


def _rand_droplet(rng, spec, cls=None, *, roll_axis=None):
    dim = geom.space_dim(spec)
    fam = spec["family"]
    h = geom.spacing(spec)
    if cls is None:
        opts = ["SphericalDroplet", "DiffuseDroplet", "DiffuseDroplet"]
        if dim == 2:
            opts += ["PerturbedDroplet2D"] * 3
        if dim == 3:
            opts += ["PerturbedDroplet3D"] * 2 + ["PerturbedDroplet3DAxisSym"] * 2
        cls = str(rng.choice(opts))
    hm = float(np.mean(h))
    R = float(rng.uniform(0.3, 4.0) * hm)
    if rng.random() < 0.04:
        R = 0.0  # a vanished droplet is still a valid droplet
    # centre
    pos = np.zeros(dim)
    mode = rng.random()
    if fam == "cart":
        b = np.asarray(spec["bounds"], float)
        L = b[:, 1] - b[:, 0]
        for a in range(dim):
            if mode < 0.25:  # exactly on a cell centre
                pos[a] = b[a, 0] + (int(rng.integers(spec["shape"][a])) + 0.5) * h[a]
            elif spec["periodic"][a] and mode < 0.5:  # outside the box on periodic axes
                pos[a] = rng.uniform(b[a, 0] - L[a], b[a, 0] + 2 * L[a])
            else:
                pos[a] = rng.uniform(b[a, 0] - 0.5 * h[a], b[a, 1] + 0.5 * h[a])
        if cls == "PerturbedDroplet3DAxisSym":
            pos[0] = pos[1] = 0.0
    elif fam in ("polar", "sph"):
        pass  # only centred droplets are compatible with a spherically symmetric grid
    elif fam == "cyl":
        z0, z1 = spec["bounds_z"]
        if mode < 0.25:
            pos[2] = z0 + (int(rng.integers(spec["shape"][1])) + 0.5) * h[1]
        else:
            pos[2] = rng.uniform(z0, z1)
    width = None
    if cls != "SphericalDroplet":
        wk = rng.random()
        width = None if wk < 0.25 else (0.0 if wk < 0.5 else float(rng.uniform(0.2, 3.0) * hm))
        if wk >= 0.5 and R > 0 and rng.random() < 0.08:
            # an interface several hundred to several thousand times thinner than the radius (round 7, C03_20): the
            # profile is saturated deep inside the droplet, where its argument is of order 1e3
            width = float(R / rng.uniform(400.0, 4000.0))
    amps = None
    if cls.startswith("Perturbed"):
        nmax = {"PerturbedDroplet2D": 6, "PerturbedDroplet3D": 8, "PerturbedDroplet3DAxisSym": 4}[cls]
        n = int(rng.integers(1, nmax + 1))
        scale = float(rng.choice([0.02, 0.1, 0.3]))
        amps = rng.uniform(-1, 1, n) * scale
        if rng.random() < 0.3:
            amps[rng.random(n) < 0.5] = 0.0
        bound = harmonics.amplitude_bound(cls, amps)
        if bound > 0.85:
            amps *= 0.85 / bound
        if rng.random() < 0.12:
            # strongly deformed but valid shapes: amplitudes up to 1, accepted when the body stays
            # star-shaped about its centre with a margin (interface distance >= 0.15 R in every direction);
            # the interface may then reach out to more than twice the radius
            for _try in range(20):
                if rng.random() < 0.5:
                    cand = rng.uniform(-1, 1, n) * (rng.random(n) < 0.6)
                else:
                    # modes that add up in one direction (cosine modes in 2-D, zonal modes in 3-D): a long lobe
                    cand = np.zeros(n)
                    if cls == "PerturbedDroplet2D":
                        idx = [i for i in range(1, n, 2)]
                    elif cls == "PerturbedDroplet3D":
                        idx = [k - 1 for k in range(1, n + 1) if harmonics.lm_from_k(k)[1] == 0]
                    else:
                        idx = list(range(n))
                    for i in idx[:3]:
                        cand[i] = float(rng.uniform(0.5, 1.0))
                if np.any(cand) and harmonics.min_rel_interface(cls, cand) >= 0.15:
                    amps = cand
                    if rng.random() < 0.7:
                        width = [0.0, float(0.25 * hm)][int(rng.integers(2))]
                        R = float(rng.uniform(0.8, 2.0) * hm)
                    break
        amps = [float(a) for a in amps]
    return {"cls": cls, "pos": [float(x) for x in pos], "radius": R, "width": width, "amps": amps}


def _levels(rng):
    if rng.random() < 0.5:
        return 0.0, 1.0
    vmin = float(rng.integers(-40, 96)) / 8.0
    vmax = vmin + float(rng.choice([0.25, 1.0, 3.5, 8.0]))
    return vmin, vmax


def _tie_case(rng):
    """Cells *exactly* on the interface: dyadic spacing and origin, centre on a cell centre,
    radius a whole multiple of a spacing (exact in floating point)."""
    dim = int(rng.choice([1, 2, 2, 3]))
    nmax = {1: 16, 2: 10, 3: 6}[dim]
    shape = [int(rng.integers(4, nmax + 1)) for _ in range(dim)]
    h = [float(rng.choice([0.25, 0.5, 1.0, 2.0])) for _ in range(dim)]
    lo = [float(rng.integers(-8, 9)) / 2 for _ in range(dim)]
    spec = {"family": "cart", "bounds": [[lo[a], lo[a] + h[a] * shape[a]] for a in range(dim)], "shape": shape,
            "periodic": [bool(rng.integers(0, 2)) for _ in range(dim)]}
    cls = str(rng.choice(["SphericalDroplet", "DiffuseDroplet", "DiffuseDroplet", "DiffuseDroplet"]))
    a = int(rng.integers(dim))
    pos = [lo[b] + (int(rng.integers(shape[b])) + 0.5) * h[b] for b in range(dim)]
    R = float(int(rng.integers(1, 4)) * h[a])
    width = None
    if cls == "DiffuseDroplet":
        width = [0.0, 0.0, None, float(h[a])][int(rng.integers(4))]
    return spec, {"cls": cls, "pos": pos, "radius": R, "width": width, "amps": None}


def gen(rng, kind, tier):
    if kind == "single":
        if rng.random() < 0.08:
            spec, d = _tie_case(rng)
            vmin, vmax = _levels(rng)
            return {"grid": spec, "droplet": d, "vmin": vmin, "vmax": vmax, "route": "ctor", "tie": True}
        dim = int(rng.choice([1, 2, 2, 3, 3]))
        spec = _rand_grid(rng, dim, tier)
        d = _rand_droplet(rng, spec)
        vmin, vmax = _levels(rng)
        case = {"grid": spec, "droplet": d, "vmin": vmin, "vmax": vmax, "route": common.pick_route(rng, 0.7)}
        if spec["family"] in ("cart", "cyl") and rng.random() < 0.2:
            # the same droplet is first drawn (not judged) on a grid of the same shape and bounds whose axes are
            # periodic where this one's are not, or the other way round: earlier calls must not influence later ones
            case["sibling_first"] = True
        if spec["family"] == "cart" and any(spec["periodic"]) and rng.random() < 0.3:
            # round 7 (C03_19): the SAME droplet object is drawn once more, on the grid of the same shape and bounds
            # without periodic axes, and that second picture is judged too - a render must not alter the droplet
            case["rerender_nonperiodic"] = True
        return case
    if kind == "roll":
        dim = int(rng.choice([1, 2, 2, 3]))
        nmax = {1: 24, 2: 12, 3: 7}[dim]
        per = [bool(rng.integers(0, 2)) for _ in range(dim)]
        axis = int(rng.integers(dim))
        per[axis] = True
        spec = geom.rand_cart_spec(rng, dim, nmin=3, nmax=nmax, periodic=per)
        d = _rand_droplet(rng, spec)
        if d["cls"] == "PerturbedDroplet3DAxisSym" and axis != 2:
            # such a droplet can only be translated along its symmetry axis
            d = _rand_droplet(rng, spec, "PerturbedDroplet3D")
        vmin, vmax = _levels(rng)
        n = int(rng.integers(-2 * spec["shape"][axis], 2 * spec["shape"][axis] + 1))
        return {"grid": spec, "droplet": d, "vmin": vmin, "vmax": vmax, "axis": axis, "cells": n}
    if kind == "emulsion":
        dim = int(rng.choice([1, 2, 2, 3]))
        spec = _rand_grid(rng, dim, tier)
        if spec["family"] == "cart" and rng.random() < 0.2:
            # a box far away from the origin of the coordinate system (10^6..10^8 cell sizes): positions then carry
            # only 8-10 significant digits relative to a cell, which the relational clauses of this kind tolerate
            b = np.asarray(spec["bounds"], float)
            hh = (b[:, 1] - b[:, 0]) / np.asarray(spec["shape"], float)
            off = np.array([float(rng.choice([-1.0, 1.0])) * 10.0 ** int(rng.integers(6, 9)) for _ in range(dim)]) * hh
            spec["bounds"] = [[float(b[a, 0] + off[a]), float(b[a, 0] + off[a] + hh[a] * spec["shape"][a])] for a in range(dim)]
            spec["far_origin"] = True
            if rng.random() < 0.5:
                spec["periodic"] = [False] * dim
        k = int(rng.integers(0, 6))
        cls = None
        if rng.random() < 0.25:
            cls = "SphericalDroplet"  # emulsions of one class
        drops = [_rand_droplet(rng, spec, cls) for _ in range(k)]
        return {"grid": spec, "droplets": drops}
    raise ValueError(kind)


# ------------------------------------------------------------------ oracle


def make_droplet(d):
    import droplets
    from droplets import droplets as dmod

    cls = getattr(dmod, d["cls"])
    pos = np.asarray(d["pos"], float)
    if d["cls"] == "SphericalDroplet":
        return cls(pos, d["radius"])
    if d["cls"] == "DiffuseDroplet":
        return cls(pos, d["radius"], interface_width=d["width"])
    amps = np.asarray(d["amps"], float) if d["amps"] else None  # no amplitudes <=> zero modes
    return cls(pos, d["radius"], interface_width=d["width"], amplitudes=amps)


def interface_and_distance(grid, spec, d):
    """Oracle: (distance of every cell centre, interface distance in that direction)."""
    diff, dist = geom.cell_distances(grid, spec, d["pos"])
    if d["cls"].startswith("Perturbed"):
        rel = harmonics.rel_interface(d["cls"], d["amps"], diff)
        iface = d["radius"] * rel
        # at zero distance the centre is inside because the body is star-shaped
        iface = np.where(dist > 0, iface, d["radius"] * max(harmonics.min_rel_interface(d["cls"], d["amps"]) - 0.05, 1e-3))
    else:
        iface = np.full(dist.shape, d["radius"])
    return diff, dist, iface


def metric_differs(grid, spec, d):
    """Periodic cylindrical grids only: cells where py-pde's metric != the periodic metric."""
    if spec["family"] != "cyl" or not spec["periodic_z"]:
        return None
    pts = geom.cell_centers_cart(grid)
    eu = np.linalg.norm(pts - np.asarray(d["pos"], float), axis=-1)
    _, per = geom.cell_distances(grid, spec, d["pos"])
    return np.abs(eu - per) > 1e-12 * (1 + eu)


def check_single(grid, spec, d, vmin, vmax, data, rec, *, ignore_known=False):
    """Judge one rendered droplet field; returns (inside mask, knife mask)."""
    h = geom.spacing(spec)
    scale = float(np.mean(h))
    rng_v = vmax - vmin
    ulp = 8 * np.finfo(float).eps * max(abs(vmin), abs(vmax), abs(rng_v), 1.0)
    data = np.asarray(data, float)
    rec.check(data.shape == tuple(spec["shape"]), "shape", f"field shape {data.shape}")
    if not rec.check(bool(np.all(np.isfinite(data))), "finite",
                     f"{int((~np.isfinite(data)).sum())} non-finite values in the field of {d}"):
        return None
    lo, hi = min(vmin, vmax), max(vmin, vmax)
    rec.check(bool(np.all(data >= lo - ulp) and np.all(data <= hi + ulp)), "range",
              f"values in [{data.min()!r}, {data.max()!r}] outside [{lo}, {hi}] for {d}")
    diff, dist, iface = interface_and_distance(grid, spec, d)
    md = None if ignore_known else metric_differs(grid, spec, d)
    width = d["width"]
    if d["cls"] == "SphericalDroplet":
        width = 0.0
    elif width is None:
        width = float(grid.typical_discretization)
    knife = np.abs(dist - iface) <= 1e-9 * max(scale, width)
    if width > 0:
        knife |= np.abs(dist - iface) <= 1e-9 * width
    if d["cls"].startswith("Perturbed"):
        # a cell exactly half a period away has no unique direction under the periodic metric
        for a, L in enumerate(geom.cart_periodicity(spec)):
            if L is not None:
                knife |= np.abs(np.abs(diff[..., a]) - L / 2) <= 1e-9 * L
    considered = ~knife
    if md is not None:
        # where the wrapped distance differs from the Euclidean one the render is known to be
        # wrong on periodic cylindrical grids; those cells are represented by the sentinel
        if bool(np.any(md)):
            rec.count(f"known_subdomain:{KNOWN_KEY}")
        considered &= ~md
    inside = dist < iface
    mid = (vmin + vmax) / 2
    above = data > mid
    bad = considered & (above != inside)
    if not rec.check(not bool(np.any(bad)), "midpoint",
                     f"{int(bad.sum())} cells on the wrong side of the midpoint, e.g. cell "
                     f"{tuple(map(int, np.argwhere(bad)[0])) if bad.any() else None}: value "
                     f"{float(data[bad][0]) if bad.any() else None}, distance "
                     f"{float(dist[bad][0]) if bad.any() else None}, interface "
                     f"{float(iface[bad][0]) if bad.any() else None}; droplet {d}"):
        pass
    if width == 0:
        expect = np.where(inside, vmax, vmin)
        tol = 0.0 if (vmin, vmax) == (0.0, 1.0) else ulp
        badi = considered & (np.abs(data - expect) > tol)
        rec.check(not bool(np.any(badi)), "indicator",
                  f"sharp droplet is not the indicator in {int(badi.sum())} cells "
                  f"(e.g. value {float(data[badi][0]) if badi.any() else None}); droplet {d}")
    if d["cls"] in ("SphericalDroplet", "DiffuseDroplet") and rng_v > 0:
        sel = considered if md is None else (considered & ~md)
        dd, vv = dist[sel].ravel(), data[sel].ravel()
        order = np.argsort(dd, kind="stable")
        dd, vv = dd[order], vv[order]
        if dd.size >= 2:
            # max value among strictly farther cells must not exceed the value here
            suffix_max = np.maximum.accumulate(vv[::-1])[::-1]
            idx = np.searchsorted(dd, dd + 1e-12 * (1 + dd), side="right")
            has = idx < dd.size
            worst = np.where(has, suffix_max[np.minimum(idx, dd.size - 1)] - vv, -np.inf)
            rec.check(bool(np.all(worst <= ulp)), "monotone",
                      f"value increases with distance by {float(worst.max())!r}; droplet {d}")
    return inside, knife


def run(case, rec):
    kind = case["kind"]
    spec = case["grid"]
    grid = geom.make_grid(spec)
    if kind in ("single", "roll", "sentinel"):
        d = case["droplet"]
        vmin, vmax = case["vmin"], case["vmax"]
        drop = common.monitored(rec, "construct", lambda: common.via(make_droplet(d), case.get("route")))
        if not drop.ok:
            rec.harness_error(f"cannot construct {d}: {drop.exc!r}")
            return
        if case.get("sibling_first"):
            sib = dict(spec)
            if spec["family"] == "cart":
                sib["periodic"] = [not p for p in spec["periodic"]]
            else:
                sib["periodic_z"] = not spec["periodic_z"]
            common.monitored(rec, "get_phase_field:sibling-grid", drop.result.copy().get_phase_field, geom.make_grid(sib),
                             vmin=vmin, vmax=vmax)  # not judged
            rec.count("preceded_by_a_render_on_a_grid_with_other_periodicity")
        call = common.monitored(rec, "get_phase_field", drop.result.get_phase_field, grid,
                                vmin=vmin, vmax=vmax)
        if not rec.check(call.ok, "no-exception",
                         f"get_phase_field raised {common.exc_text(call.exc) if call.exc else ''} for {d}"):
            rec.evaluated(nontrivial=False)
            return
        data = np.array(call.result.data, float)
        res = check_single(grid, spec, d, vmin, vmax, data, rec,
                           ignore_known=case.get("ignore_known", False))
        nontrivial = False
        if res is not None:
            inside, knife = res
            nontrivial = bool(inside.any() and (~inside).any())
            if bool(np.any(np.linalg.norm(
                    geom.cell_centers_cart(grid) - np.asarray(d["pos"]), axis=-1) == 0)):
                rec.count("centre_exactly_on_cell_centre")
        if case.get("rerender_nonperiodic"):
            spec2 = dict(spec)
            spec2["periodic"] = [False] * len(spec["periodic"])
            grid2 = geom.make_grid(spec2)
            call3 = common.monitored(rec, "get_phase_field:again-nonperiodic", drop.result.get_phase_field, grid2,
                                     vmin=vmin, vmax=vmax)
            if rec.check(call3.ok, "no-exception",
                         f"second render of the same droplet raised {common.exc_text(call3.exc) if call3.exc else ''} for {d}"):
                check_single(grid2, spec2, d, vmin, vmax, np.array(call3.result.data, float), rec,
                             ignore_known=case.get("ignore_known", False))
                rec.count("same_object_rendered_again_on_the_nonperiodic_grid")
        if case.get("tie"):
            rec.count("cases_with_cells_exactly_on_the_interface")
        if d["radius"] == 0:
            rec.count("radius_zero_droplets")
        wk = "sharp" if (d["cls"] == "SphericalDroplet" or d["width"] == 0) else (
            "default" if d["width"] is None else "diffuse")
        rec.count(f"table:{d['cls']}|{geom.grid_label(spec)}|{wk}")
        if kind == "roll" and res is not None:
            a, n = case["axis"], case["cells"]
            h = geom.spacing(spec)
            d2 = dict(d)
            d2["pos"] = list(d["pos"])
            d2["pos"][a] = d["pos"][a] + n * h[a]
            call2 = common.monitored(rec, "get_phase_field", make_droplet(d2).get_phase_field,
                                     grid, vmin=vmin, vmax=vmax)
            if rec.check(call2.ok, "no-exception", f"translated render raised {call2.exc!r}"):
                rolled = np.roll(data, n, axis=a)
                _, dist, iface = interface_and_distance(grid, spec, d2)
                ok_cells = np.ones(dist.shape, bool)
                if d["cls"] == "SphericalDroplet" or d["width"] == 0:
                    # a sharp interface may flip knife-edge cells under translation rounding
                    ok_cells &= np.abs(dist - iface) > 1e-9 * float(np.mean(h))
                if d["cls"].startswith("Perturbed"):
                    # the direction (hence the interface distance) is undefined at the centre
                    # and for cells exactly half a period away
                    ok_cells &= dist > 1e-9 * float(np.mean(h))
                    diff2 = geom.cell_distances(grid, spec, d2["pos"])[0]
                    for ax, L in enumerate(geom.cart_periodicity(spec)):
                        if L is not None:
                            ok_cells &= np.abs(np.abs(diff2[..., ax]) - L / 2) > 1e-9 * L
                err = float(np.max(np.abs(np.asarray(call2.result.data) - rolled)[ok_cells], initial=0.0))
                rec.note_max("max_roll_error_rel", err / abs(vmax - vmin))
                rec.check(err <= 1e-9 * abs(vmax - vmin), "roll",
                          f"translating by {n} cells along periodic axis {a} differs from np.roll by {err}; {d}")
        rec.evaluated(nontrivial=nontrivial)
        return
    if kind == "emulsion":
        import droplets

        ds = case["droplets"]
        objs = [make_droplet(d) for d in ds]
        singles = [np.asarray(o.get_phase_field(grid).data, float) for o in objs]
        expect = np.clip(sum(singles), 0, 1) if singles else np.zeros(tuple(spec["shape"]))
        em = droplets.Emulsion(objs)
        call = common.monitored(rec, "Emulsion.get_phasefield", em.get_phasefield, grid)
        if not rec.check(call.ok, "no-exception", f"Emulsion.get_phasefield raised {call.exc!r}"):
            rec.evaluated(nontrivial=False)
            return
        data = np.asarray(call.result.data, float)
        ok = bool(np.all(np.isfinite(data)))
        rec.check(ok, "finite", "emulsion field not finite")
        if ok:
            err = float(np.max(np.abs(data - expect), initial=0.0))
            rec.check(err <= 1e-12, "sum-clip", f"emulsion field differs from clip(sum) by {err}; {ds}")
            perms = list(itertools.permutations(range(len(objs)))) if len(objs) <= 4 else [
                tuple(reversed(range(len(objs))))]
            for p in perms[1:7]:
                em2 = droplets.Emulsion([objs[i] for i in p])
                c2 = common.monitored(rec, "Emulsion.get_phasefield", em2.get_phasefield, grid)
                if rec.check(c2.ok, "no-exception", f"permuted emulsion raised {c2.exc!r}"):
                    e2 = float(np.max(np.abs(np.asarray(c2.result.data) - data), initial=0.0))
                    rec.check(e2 <= 1e-12, "order-independent",
                              f"emulsion field changes by {e2} under member permutation {p}")
        overlap = len(singles) >= 2 and bool(np.any(sum((s > 1e-6).astype(int) for s in singles) >= 2))
        rec.evaluated(nontrivial=overlap)
        rec.count(f"emulsion_size:{len(ds)}")
        return
    raise ValueError(kind)


def sentinels(rec):
    cart3 = {"family": "cart", "bounds": [[0, 5], [0, 5], [0, 5]], "shape": [5, 5, 5],
             "periodic": [False, True, False]}
    cyl = {"family": "cyl", "radius": 4.0, "bounds_z": [-3.0, 3.0], "shape": [4, 6], "periodic_z": False}
    regress = [
        # D1: axisymmetric perturbed droplet could not be rendered at all
        {"grid": cyl, "droplet": {"cls": "PerturbedDroplet3DAxisSym", "pos": [0, 0, 0.3], "radius": 2.2,
                                  "width": 0.8, "amps": [0.1, -0.15]}, "vmin": 0.0, "vmax": 1.0},
        # D2: 3-D perturbed droplet exactly on a cell centre (positive and zero width)
        {"grid": cart3, "droplet": {"cls": "PerturbedDroplet3D", "pos": [2.5, 2.5, 2.5], "radius": 1.7,
                                    "width": 0.7, "amps": [0.1, 0.0, -0.1, 0.05]}, "vmin": 0.0, "vmax": 1.0},
        {"grid": cart3, "droplet": {"cls": "PerturbedDroplet3D", "pos": [2.5, 2.5, 2.5], "radius": 1.7,
                                    "width": 0.0, "amps": [0.1, 0.0, -0.1, 0.05]}, "vmin": -2.0, "vmax": 1.5},
    ]
    for c in regress:
        c["kind"] = "sentinel"
        with rec.case("sentinel", c):
            run(c, rec)
    # D10 (known finding): droplet straddling the periodic z boundary of a cylindrical grid
    c = {"grid": {"family": "cyl", "radius": 3.0, "bounds_z": [0.0, 6.0], "shape": [3, 6],
                  "periodic_z": True},
         "droplet": {"cls": "SphericalDroplet", "pos": [0, 0, 0.2], "radius": 1.2, "width": None,
                     "amps": None},
         "vmin": 0.0, "vmax": 1.0, "kind": "sentinel", "ignore_known": True, "known": KNOWN_KEY}
    with rec.sentinel(KNOWN_KEY, KNOWN_WHAT):
        with rec.case("sentinel", c):
            run(c, rec)


def run_shard(spec, rec):
    from droplets import droplets as dmod
    from droplets import emulsions
    from droplets.tools import spherical

    rec.watch(spherical.polar_coordinates, dmod.SphericalDroplet._get_phase_field,
              dmod.DiffuseDroplet._get_phase_field, dmod.PerturbedDropletBase._get_phase_field,
              dmod.SphericalDroplet.get_phase_field, emulsions.Emulsion.get_phasefield,
              dmod.PerturbedDroplet2D.interface_distance, dmod.PerturbedDroplet3D.interface_distance,
              dmod.PerturbedDroplet3DAxisSym.interface_distance)
    if spec["kind"] == "single" and spec["start"] == 0:
        sentinels(rec)
    common.run_generated(spec, rec, gen, run, ID)


def replay(v, rec):
    case = v["case"]
    with rec.case(v["kind"], case):
        if case.get("known"):
            with rec.sentinel(case["known"], KNOWN_WHAT):
                run(case, rec)
        else:
            run(case, rec)
