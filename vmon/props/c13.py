"""C13 - a perturbed droplet's volume, surface, curvature and outline match its shape.

Monitor: post-conditions on ``volume``, ``surface_area``, ``volume_approx``,
``interface_position``, ``interface_curvature`` and ``get_triangulation`` of the three
perturbed classes.  Oracle: the oracle's own interface-distance series (harmonics.py),
independent quadrature and exact curvature (curvature.py).
"""

from __future__ import annotations

import math

import numpy as np

from ..oracles import curvature, harmonics
from . import common

ID = "C13"
RULE = (
    "cases = perturbed droplets (2-D, 3-D, axisymmetric) with radius log-uniform over 0.1..10 (a quarter over 1e-9..1e9) "
    "(never only 1), random centres, 1..4 simultaneously non-zero modes up to degree 4 (2-D: "
    "harmonics 1..4, sin and cos), sparse amplitude vectors with exact zeros before non-zero "
    "modes; 'shape' cases use amplitudes of size 0.02..0.3 (volume, surface, outline, "
    "triangulation at resolutions 0.1..2 R), 'linear' cases amplitude scale eps=1e-4 (first-order "
    "curvature and approximate volume, 16 random directions incl. the poles), 'zero' cases all "
    "amplitudes zero (scalar and array arguments). Non-trivial = >=2 non-zero modes or a mode of "
    "degree >=2. Distinct = digest of the case."
)
ASSUMPTIONS = [
    "first-order agreement is tested at amplitude scale 1e-4 with tolerance 5% of the first-order term plus 50 eps^2/R",
    "classes that raise NotImplementedError for a quantity report nothing and are skipped for it",
    "scipy's dblquad (used by the 3-D volume) is compared at 1e-7 relative",
]
REQUIRED_MONITORS = {"post:curvature-first-order": 100, "post:interface-position": 100, "post:volume": 50,
                     "post:triangulation": 30, "post:zero-amplitudes": 50, "post:volume-approx": 50}
MIN_NONTRIVIAL = 100
CLASSES = ["PerturbedDroplet2D", "PerturbedDroplet3D", "PerturbedDroplet3DAxisSym"]


def plan(tier, seed):
    if tier == "quick":
        kinds = {"shape": 900, "linear": 1500, "zero": 300}
        per = 150
    else:
        kinds = {"shape": 30000, "linear": 60000, "zero": 6000}
        per = 2000
    return common.shards(kinds, per_shard=per, tier=tier, seed=seed, timeout_s=3000)


def _amps(rng, cls, scale):
    if cls == "PerturbedDroplet2D":
        n = int(rng.choice([2, 4, 6, 8, 3, 5]))
    elif cls == "PerturbedDroplet3D":
        n = int(rng.choice([3, 8, 15, 24, 5, 10]))
    else:
        n = int(rng.integers(1, 5))
    a = np.zeros(n)
    k = min(n, int(rng.integers(1, 5)))
    idx = rng.choice(n, k, replace=False)
    a[idx] = rng.uniform(0.3, 1.0, k) * rng.choice([-1, 1], k) * scale
    if rng.random() < 0.3:
        a = rng.uniform(-1, 1, n) * scale  # dense
    b = harmonics.amplitude_bound(cls, a)
    if b > 0.6:
        a *= 0.6 / b
    return [float(x) for x in a]


def gen(rng, kind, tier):
    cls = str(rng.choice(CLASSES))
    dim = 2 if cls == "PerturbedDroplet2D" else 3
    R = float(10 ** rng.uniform(-1, 1))
    pos = [float(x) for x in rng.normal(0, 5, dim)]
    if rng.random() < 0.25:
        # other units of length: nanometre-sized and kilometre-sized droplets (the position scales along: outline
        # points of a droplet that sits 10^9 radii away from the origin carry no information about its shape)
        R = float(10 ** rng.uniform(-9, 9))
        pos = [x * R for x in pos]
    if cls == "PerturbedDroplet3DAxisSym":
        pos[0] = pos[1] = 0.0
    if kind == "shape":
        amps = _amps(rng, cls, float(rng.choice([0.02, 0.1, 0.3])))
    elif kind == "linear":
        amps = _amps(rng, cls, 1e-4)
    else:
        amps = [0.0] * len(_amps(rng, cls, 0.1))
    return {"cls": cls, "pos": pos, "radius": R, "amps": amps, "dir_seed": int(rng.integers(1 << 30)),
            "resolution": float(rng.uniform(0.1, 2.0)), "route": common.pick_route(rng, 0.7)}


def _mk(case):
    from .c03 import make_droplet

    return common.via(make_droplet({"cls": case["cls"], "pos": case["pos"], "radius": case["radius"], "width": 0.5,
                                    "amps": case["amps"]}), case.get("route"))


def _dirs(case, n=16):
    r = np.random.default_rng(case["dir_seed"])
    theta = np.arccos(r.uniform(-1, 1, n))
    phi = r.uniform(-np.pi, np.pi, n)
    theta[0], theta[1] = 0.0, np.pi
    phi[2] = 0.0
    return theta, phi


def rel_at(case, theta, phi):
    cls = case["cls"]
    if cls == "PerturbedDroplet2D":
        return harmonics.rel_interface_2d(case["amps"], phi)
    if cls == "PerturbedDroplet3D":
        return harmonics.rel_interface_3d(case["amps"], theta, phi)
    return harmonics.rel_interface_axisym(case["amps"], theta)


def sphere_vol(R, dim):
    return math.pi * R * R if dim == 2 else 4 * math.pi / 3 * R ** 3


def run(case, rec):
    cls = case["cls"]
    dim = 2 if cls == "PerturbedDroplet2D" else 3
    R = case["radius"]
    pos = np.asarray(case["pos"], float)
    amps = case["amps"]
    d = _mk(case)
    label = f"{cls} R={R} pos={case['pos']} amps={amps}"
    theta, phi = _dirs(case)
    kind = case["kind"]
    nz = [i for i, a in enumerate(amps) if a != 0]

    def degree(i):
        if cls == "PerturbedDroplet2D":
            return i // 2 + 1
        if cls == "PerturbedDroplet3D":
            return harmonics.lm_from_k(i + 1)[0]
        return i + 1

    nontrivial = len(nz) >= 2 or any(degree(i) >= 2 for i in nz)

    # ---- interface distance / position (all kinds)
    if dim == 2:
        args = (phi,)
        unit = np.stack([np.cos(phi), np.sin(phi)], axis=-1)
    elif cls == "PerturbedDroplet3D":
        args = (theta, phi)
        unit = np.stack([np.sin(theta) * np.cos(phi), np.sin(theta) * np.sin(phi), np.cos(theta)], axis=-1)
    else:
        args = (theta,)
        unit = np.stack([np.sin(theta) * np.cos(phi), np.sin(theta) * np.sin(phi), np.cos(theta)], axis=-1)
    rel = rel_at(case, theta, phi)
    c = common.monitored(rec, "interface_distance", d.interface_distance, *args)
    if rec.check(c.ok, "no-exception", f"interface_distance raised {common.exc_text(c.exc) if c.exc else ''}; {label}"):
        rec.check(bool(np.allclose(c.result, R * rel, rtol=1e-12, atol=1e-13 * R)), "interface-distance",
                  f"interface_distance {np.asarray(c.result)[:3].tolist()} != series {(R * rel)[:3].tolist()}; {label}")
    # the shape function acts element by element (it is evaluated on all cells of a grid when a droplet is drawn):
    # two-dimensional angle arrays of any memory layout give the same numbers
    if len(theta) >= 4:
        n2 = (len(theta) // 2) * 2
        exp2 = (R * rel)[:n2].reshape(2, -1)
        for lay, conv in (("C order", lambda x: np.ascontiguousarray(x[:n2].reshape(2, -1))),
                          ("Fortran order", lambda x: np.asfortranarray(x[:n2].reshape(2, -1))),
                          ("transposed view", lambda x: np.ascontiguousarray(x[:n2].reshape(2, -1).T).T),
                          ("strided view", lambda x: np.repeat(x[:n2].reshape(2, -1), 2, axis=1)[:, ::2])):
            c2 = common.monitored(rec, "interface_distance(2-d angles)", d.interface_distance, *[conv(a) for a in args])
            if rec.check(c2.ok, "no-exception", f"interface_distance with 2-d angle arrays ({lay}) raised "
                         f"{common.exc_text(c2.exc) if c2.exc else ''}; {label}"):
                got2 = np.asarray(c2.result, float)
                rec.check(got2.shape == exp2.shape and bool(np.allclose(got2, exp2, rtol=1e-12, atol=1e-13 * R)), "interface-distance",
                          f"interface_distance with 2-d angle arrays ({lay}) differs from the element-wise values; {label}")
    pargs = (phi,) if dim == 2 else (theta, phi)
    c = common.monitored(rec, "interface_position", d.interface_position, *pargs)
    if rec.check(c.ok, "no-exception", f"interface_position raised {common.exc_text(c.exc) if c.exc else ''}; {label}"):
        exp = pos[None, :] + (R * rel)[:, None] * unit
        got = np.asarray(c.result, float)
        rec.check(got.shape == exp.shape and bool(np.all(np.abs(got - exp) <= 1e-12 * (R + np.abs(pos).max()))),
                  "interface-position",
                  f"interface_position differs from centre + distance*direction by "
                  f"{float(np.abs(got - exp).max()) if got.shape == exp.shape else 'shape ' + str(got.shape)}; {label}")
        # scalar arguments give the same answer
        cs = common.monitored(rec, "interface_position", d.interface_position, *[float(a[3]) for a in pargs])
        if rec.check(cs.ok, "no-exception", f"interface_position(scalar) raised {cs.exc!r}; {label}"):
            rec.check(bool(np.all(np.abs(np.asarray(cs.result, float).ravel() - exp[3]) <= 1e-12 * (R + np.abs(pos).max()))),
                      "interface-position", f"scalar-argument interface_position differs from the array one; {label}")

    if dim == 3:
        # ---- the polar angle may be omitted and then counts as 0 (documented): same shape functions
        zero = np.zeros_like(theta)
        rel0 = rel_at(case, theta, zero)
        unit0 = np.stack([np.sin(theta), zero, np.cos(theta)], axis=-1)
        c = common.monitored(rec, "interface_distance(phi omitted)", d.interface_distance, theta)
        if rec.check(c.ok, "no-exception", f"interface_distance(theta) raised {common.exc_text(c.exc) if c.exc else ''}; {label}"):
            rec.check(bool(np.allclose(c.result, R * rel0, rtol=1e-12, atol=1e-13 * R)), "interface-distance",
                      f"interface_distance with the polar angle omitted {np.asarray(c.result)[:3].tolist()} != series at phi=0 "
                      f"{(R * rel0)[:3].tolist()}; {label}")
        c = common.monitored(rec, "interface_position(phi omitted)", d.interface_position, theta)
        if rec.check(c.ok, "no-exception", f"interface_position(theta) raised {common.exc_text(c.exc) if c.exc else ''}; {label}"):
            exp0 = pos[None, :] + (R * rel0)[:, None] * unit0
            got = np.asarray(c.result, float)
            rec.check(got.shape == exp0.shape and bool(np.all(np.abs(got - exp0) <= 1e-12 * (R + np.abs(pos).max()))),
                      "interface-position", f"interface_position with the polar angle omitted differs from centre + "
                      f"distance*direction at phi=0; {label}")

    if kind == "shape":
        # ---- exact volume / surface
        if dim == 2:
            area, perim = curvature.area_perimeter_2d(R, amps)
            c = common.monitored(rec, "volume", lambda: d.volume)
            if rec.check(c.ok, "no-exception", f"volume raised {c.exc!r}; {label}"):
                rec.check(abs(c.result - area) <= 1e-8 * area, "volume", f"volume {c.result!r} != area of the body {area!r}; {label}")
            c = common.monitored(rec, "surface_area", lambda: d.surface_area)
            if rec.check(c.ok, "no-exception", f"surface_area raised {c.exc!r}; {label}"):
                rec.check(abs(c.result - perim) <= 1e-8 * perim, "surface", f"surface_area {c.result!r} != perimeter {perim!r}; {label}")
        else:
            c = common.monitored(rec, "volume", lambda: d.volume)
            if c.ok:
                vq = curvature.volume_3d(cls, R, amps)
                rec.check(abs(c.result - vq) <= 1e-7 * vq, "volume", f"volume {c.result!r} != quadrature {vq!r}; {label}")
                if len(amps) >= 1 and case["dir_seed"] % 3 == 0:
                    # the volume is a property of the current shape: after the shape was changed on the same object (one
                    # amplitude written through the array the droplet hands out, or the whole set assigned, or the
                    # radius changed as well) it is that of the new shape
                    d2 = _mk(case)
                    common.monitored(rec, "volume", lambda: d2.volume)  # read once before the change
                    new = [0.5 * a for a in amps]
                    new[case["dir_seed"] % len(new)] = 0.12
                    how = (case["dir_seed"] // 3) % 3
                    if how == 0:
                        d2.amplitudes[case["dir_seed"] % len(new)] = 0.12
                        new = [a if i != case["dir_seed"] % len(amps) else 0.12 for i, a in enumerate(amps)]
                    elif how == 1:
                        d2.amplitudes = np.asarray(new, float)
                    else:
                        d2.data["amplitudes"] = np.asarray(new, float)
                    c2 = common.monitored(rec, "volume", lambda: d2.volume)
                    vq2 = curvature.volume_3d(cls, R, new)
                    rec.check(c2.ok and abs(c2.result - vq2) <= 1e-7 * vq2, "volume",
                              f"after changing the amplitudes to {new} on the same object (way {how}) the volume is "
                              f"{c2.result if c2.ok else c2.exc!r}, the quadrature of the new shape gives {vq2!r}; {label}")
            elif not isinstance(c.exc, NotImplementedError):
                rec.check(False, "no-exception", f"volume raised {c.exc!r}; {label}")
            else:
                rec.count("volume_not_implemented")
            # a class that reports a surface area has to report the area of its own surface
            c = common.monitored(rec, "surface_area", lambda: d.surface_area)
            if c.ok:
                aq = curvature.surface_3d(cls, R, amps)
                rec.check(abs(float(c.result) - aq) <= 1e-5 * aq, "surface",
                          f"surface_area {c.result!r} != area of the surface {aq!r} (quadrature); {label}")
            elif not isinstance(c.exc, (NotImplementedError, AttributeError)):
                rec.check(False, "no-exception", f"surface_area raised {c.exc!r}; {label}")
            else:
                rec.count("surface_area_not_implemented")
        # ---- triangulation vertices lie on the interface
        res = case["resolution"] * R
        c = common.monitored(rec, "get_triangulation", d.get_triangulation, res)
        if rec.check(c.ok, "no-exception", f"get_triangulation raised {common.exc_text(c.exc) if c.exc else ''}; {label}"):
            v = np.asarray(c.result["vertices"], float) - pos
            dist = np.linalg.norm(v, axis=-1)
            rel_v = harmonics.rel_interface(cls, amps, v)
            err = float(np.max(np.abs(dist - R * rel_v))) if len(v) else 0.0
            rec.check(len(v) >= 3 and err <= 1e-10 * R, "triangulation",
                      f"{len(v)} triangulation vertices, worst distance from the interface {err}; {label}")
            rec.note_max("max_vertices", len(v))
    if kind in ("linear", "zero"):
        # ---- curvature to first order
        cargs = (phi,) if dim == 2 else ((theta, phi) if cls == "PerturbedDroplet3D" else (theta,))
        c = common.monitored(rec, "interface_curvature", d.interface_curvature, *cargs)
        if rec.check(c.ok, "no-exception", f"interface_curvature raised {common.exc_text(c.exc) if c.exc else ''}; {label}"):
            got = np.asarray(c.result, float)
            if dim == 2:
                true = curvature.curvature_2d(R, amps, phi)
            else:
                true = curvature.mean_curvature_3d(cls, R, amps, theta, phi)
            ks = 1.0 / R
            eps = max((abs(a) for a in amps), default=0.0)
            lmax = max((degree(i) for i in nz), default=1)
            allow = 0.05 * float(np.max(np.abs(true - ks))) + 50 * (lmax ** 4) * eps ** 2 / R + 2e-6 * eps * lmax ** 2 / R + 1e-7 / R
            dev = float(np.max(np.abs((got - ks) - (true - ks)))) if got.shape == true.shape else float("inf")
            clause = "zero-amplitudes" if kind == "zero" else "curvature-first-order"
            rec.check(dev <= allow, clause,
                      f"curvature deviates from the true mean curvature by {dev} (allowed {allow}; first-order term "
                      f"{float(np.max(np.abs(true - ks)))}, 1/R={ks}); {label}")
            cs = common.monitored(rec, "interface_curvature", d.interface_curvature, *[float(a[3]) for a in cargs])
            if rec.check(cs.ok, "no-exception",
                         f"interface_curvature(scalar) raised {common.exc_text(cs.exc) if cs.exc else ''}; {label}"):
                rec.check(abs(float(np.ravel(cs.result)[0]) - got[3]) <= 1e-12 / R, clause,
                          f"scalar-argument curvature {cs.result!r} differs from the array one {got[3]!r}; {label}")
        # ---- approximate volume to first order
        if dim == 3:
            c = common.monitored(rec, "volume_approx", lambda: d.volume_approx)
            if rec.check(c.ok, "no-exception", f"volume_approx raised {c.exc!r}; {label}"):
                vq = curvature.volume_3d(cls, R, amps)
                eps = max((abs(a) for a in amps), default=0.0)
                rec.check(abs(c.result - vq) <= (50 * eps ** 2 + 1e-12) * vq, "volume-approx" if kind == "linear" else "zero-amplitudes",
                          f"volume_approx {c.result!r} differs from the exact volume {vq!r} by more than second order "
                          f"(eps={eps}); {label}")
    if kind == "zero":
        sv = sphere_vol(R, dim)
        c = common.monitored(rec, "volume", lambda: d.volume)
        # (the axisymmetric class documents NotImplementedError for its volume with more than one mode)
        if rec.check(c.ok or isinstance(c.exc, NotImplementedError), "no-exception",
                     f"volume raised {c.exc!r} with all amplitudes zero; {label}") and c.ok:
            rec.check(abs(c.result - sv) <= 1e-8 * sv, "zero-amplitudes", f"volume {c.result!r} != sphere {sv!r}; {label}")
        if dim == 2:
            c = common.monitored(rec, "surface_area", lambda: d.surface_area)
            if rec.check(c.ok or isinstance(c.exc, NotImplementedError), "no-exception",
                         f"surface_area raised {c.exc!r} with all amplitudes zero; {label}") and c.ok:
                rec.check(abs(c.result - 2 * math.pi * R) <= 1e-10 * R, "zero-amplitudes", f"surface {c.result!r} != 2 pi R; {label}")
    rec.evaluated(nontrivial=nontrivial and kind != "zero" or (kind == "zero" and R != 1.0))
    rec.count(f"{kind}:{cls}")


def sentinels(rec):
    cases = [
        # D7a two non-zero 3-D modes; D7b radius 2
        {"kind": "linear", "cls": "PerturbedDroplet3D", "pos": [0.0, 0.0, 0.0], "radius": 2.0,
         "amps": [0, 0, 0, 0, 0, 1e-4, 0, -0.7e-4], "dir_seed": 1, "resolution": 1.0},
        # D8: l=1 amplitude in volume_approx
        {"kind": "linear", "cls": "PerturbedDroplet3D", "pos": [1.0, 0.0, 0.0], "radius": 1.0,
         "amps": [1e-4, 0, 0], "dir_seed": 2, "resolution": 1.0},
        # D18: zero amplitudes with scalar arguments
        {"kind": "zero", "cls": "PerturbedDroplet3DAxisSym", "pos": [0.0, 0.0, 1.0], "radius": 3.0,
         "amps": [0.0, 0.0], "dir_seed": 3, "resolution": 1.0},
        # D19: axisymmetric interface_position / triangulation follows the perturbation
        {"kind": "shape", "cls": "PerturbedDroplet3DAxisSym", "pos": [0.0, 0.0, -1.0], "radius": 2.5,
         "amps": [0.0, 0.3], "dir_seed": 4, "resolution": 0.7},
    ]
    for c in cases:
        with rec.case(c["kind"], c):
            run(c, rec)


def run_shard(spec, rec):
    from droplets import droplets as dmod

    rec.watch(dmod.PerturbedDroplet2D.interface_curvature, dmod.PerturbedDroplet3D.interface_curvature,
              dmod.PerturbedDroplet3DAxisSym.interface_curvature, dmod.PerturbedDroplet2D.surface_area.fget,
              dmod.SphericalDroplet.get_triangulation, dmod.PerturbedDroplet3D.interface_position,
              dmod.PerturbedDroplet3DAxisSym.interface_position)
    if spec["kind"] == "linear" and spec["start"] == 0:
        sentinels(rec)
    common.run_generated(spec, rec, gen, run, ID)


def replay(v, rec):
    with rec.case(v["kind"], v["case"]):
        run(v["case"], rec)
