"""C04 - refinement never worsens the fit and respects bounds, symmetry and the box.

Monitors: (i) OptimizeProxy (dispatcher bound onto ``scipy.optimize.least_squares`` before the package is imported) observing the
least-squares cost at start/end where it is produced; (ii) post-condition on
``refine_droplet`` with an image digest and a private copy of the candidate.
Oracle: independent recomputation of the squared deviation over the *specified* fit region
(dilation of the candidate's binary image by 1 + floor(2 w) steps) from public renders.
"""

from __future__ import annotations

import hashlib

import numpy as np

from .. import monitors
from ..oracles import geom, harmonics
from . import common
from .c03 import make_droplet as _make_library_droplet

_USER = {"on": False}


def make_droplet(d):
    """Droplet of the described class; DiffuseDroplet descriptions become the user-defined subclass `usercls.Squashed`
    while a case that asks for it is running."""
    if _USER["on"] and d["cls"] == "DiffuseDroplet":
        from . import usercls

        return usercls.Squashed(np.asarray(d["pos"], float), d["radius"], d["width"])
    return _make_library_droplet(d)

ID = "C04"
RULE = (
    "cases = (grid, image, candidate droplet, level options): grids of every family (Cartesian "
    "d=1..3 with all periodicity masks, polar, spherical, cylindrical +- periodic z), images = the "
    "candidate's own render | a displaced/rescaled droplet + N(0,0.05) noise | another droplet "
    "with levels (-3,5) | pure noise | constant; candidates of every class (perturbed with 1..4 "
    "modes), widths None/0/positive; level options fixed | automatic | one automatic | fitted | "
    "automatic+fitted; tolerance / least_squares_params variants. Non-trivial = the solver "
    "accepted at least one step (nfev > 1 and cost decreased) or ended with an active bound. "
    "Distinct = digest of the whole case."
)
ASSUMPTIONS = [
    "scipy.ndimage.binary_dilation is reused to reconstruct the specified fit region",
    "the public get_phase_field render is the model (its faithfulness is C03's subject)",
    "periodic cylindrical grids: candidates and results stay clear of the z boundary (py-pde metric, see C03)",
    "cost comparisons allow 1e-9 relative + 1e-18 absolute slack",
]
REQUIRED_MONITORS = {"proxy:least_squares": 100, "post:cost-not-worse": 100, "post:bounds": 100,
                     "post:image-unchanged": 100}
MIN_NONTRIVIAL = 50


def plan(tier, seed):
    if tier == "quick":
        kinds = {"fit": 1400, "self": 300, "hostile": 300}
        per = 125
    else:
        kinds = {"fit": 48000, "self": 8000, "hostile": 8000}
        per = 1500
    return common.shards(kinds, per_shard=per, tier=tier, seed=seed, timeout_s=3000)


# ------------------------------------------------------------------ generation


def _grid(rng, dim):
    fams = {1: ["cart"], 2: ["cart", "cart", "cart", "polar"], 3: ["cart", "cart", "sph", "cyl", "cyl"]}[dim]
    fam = str(rng.choice(fams))
    if fam == "cart":
        lo, hi = {1: (16, 48), 2: (10, 22), 3: (7, 11)}[dim]
        spec = geom.rand_cart_spec(rng, dim, nmin=lo, nmax=hi, hmin=0.4, hmax=2.0, aniso=False)
        # mild anisotropy
        b = np.asarray(spec["bounds"], float)
        h = (b[:, 1] - b[:, 0]) / np.asarray(spec["shape"])
        h = h * rng.uniform(0.8, 1.25, dim)
        u = spec.get("unit", 1.0)
        spec["bounds"] = [[float(b[i, 0]), float(b[i, 0] + np.round(h[i] / u, 4) * u * spec["shape"][i])] for i in range(dim)]
        return spec
    if fam in ("polar", "sph"):
        return geom.rand_sym_spec(rng, fam, nmin=10, nmax=32, hmin=0.4, hmax=2.0)
    return geom.rand_cyl_spec(rng, nmin=8, nmax=16, hmin=0.4, hmax=2.0, ratio=(0.8, 1.25))


def _truth(rng, spec, cls):
    dim = geom.space_dim(spec)
    fam = spec["family"]
    h = geom.spacing(spec)
    hm = float(np.mean(h))
    pos = np.zeros(dim)
    if fam == "cart":
        b = np.asarray(spec["bounds"], float)
        L = b[:, 1] - b[:, 0]
        rmax = 0.4 * float(L.min())
        R = float(rng.uniform(1.5 * hm, max(1.6 * hm, min(5 * hm, rmax))))
        for a in range(dim):
            if spec["periodic"][a]:
                pos[a] = rng.uniform(b[a, 0] - 0.5 * L[a], b[a, 1] + 0.5 * L[a])
            elif rng.random() < 0.1:
                # a droplet that is only partly visible: its centre lies beyond a wall of the image
                out = rng.uniform(0.0, 0.6) * R
                pos[a] = b[a, 0] - out if rng.random() < 0.5 else b[a, 1] + out
            else:
                lo, hi = b[a, 0] + R + hm, b[a, 1] - R - hm
                pos[a] = rng.uniform(lo, hi) if lo < hi else (b[a, 0] + b[a, 1]) / 2
        if cls == "PerturbedDroplet3DAxisSym":
            pos[0] = pos[1] = 0.0
    elif fam in ("polar", "sph"):
        R = float(rng.uniform(1.5 * hm, 0.7 * spec["radius"]))
    else:
        z0, z1 = spec["bounds_z"]
        R = float(rng.uniform(1.5 * hm, 0.3 * min(spec["radius"] * 2, z1 - z0)))
        pos[2] = rng.uniform(z0 + R + 2.5 * hm, z1 - R - 2.5 * hm) if z1 - z0 > 2 * R + 5 * hm else (z0 + z1) / 2
    width = float(rng.uniform(0.5, 2.0) * hm)
    amps = None
    if cls.startswith("Perturbed"):
        n = int(rng.integers(1, 5)) if rng.random() > 0.08 else 0
        amps = (rng.uniform(-1, 1, n) * float(rng.choice([0.03, 0.1, 0.2])))
        bnd = harmonics.amplitude_bound(cls, amps)
        if bnd > 0.6:
            amps *= 0.6 / bnd
        amps = [float(a) for a in amps]
    if cls == "SphericalDroplet":
        return {"cls": cls, "pos": pos.tolist(), "radius": R, "width": None, "amps": None}
    return {"cls": cls, "pos": pos.tolist(), "radius": R, "width": width, "amps": amps}


def _classes(dim, fam):
    out = ["SphericalDroplet", "DiffuseDroplet", "DiffuseDroplet"]
    if dim == 2:
        out += ["PerturbedDroplet2D"] * 2
    if dim == 3 and fam == "cyl":
        out += ["PerturbedDroplet3DAxisSym"] * 2
    elif dim == 3 and fam == "sph":
        out += ["PerturbedDroplet3DAxisSym"]
    elif dim == 3:
        # axisymmetric droplets are only compatible with grids that fix x and y
        out += ["PerturbedDroplet3D", "PerturbedDroplet3D"]
    return out


def _perturb(rng, spec, d, strength):
    h = float(np.mean(geom.spacing(spec)))
    c = dict(d)
    pos = np.array(d["pos"], float)
    free = np.ones(len(pos), bool)
    if spec["family"] in ("polar", "sph"):
        free[:] = False
    elif spec["family"] == "cyl" or d["cls"] == "PerturbedDroplet3DAxisSym":
        free[:2] = False
    pos = pos + free * rng.uniform(-0.7, 0.7, len(pos)) * h * strength
    c["pos"] = pos.tolist()
    c["radius"] = float(d["radius"] * (1 + strength * rng.uniform(-0.2, 0.2)))
    if d["cls"] != "SphericalDroplet":
        wk = rng.random()
        if wk < 0.15:
            c["width"] = None
        elif wk < 0.25:
            c["width"] = 0.0
        else:
            c["width"] = float((d["width"] or h) * (1 + strength * rng.uniform(-0.3, 0.3)))
    if d["amps"] is not None:
        c["amps"] = [float(np.clip(a + strength * rng.uniform(-0.05, 0.05), -1, 1)) for a in d["amps"]]
    return c


def _opts(rng, levels, hostile=False):
    a, b = levels
    r = rng.random()
    if r < 0.3:
        o = {"vmin": a, "vmax": b}
    elif r < 0.5:
        o = {"vmin": None, "vmax": None}
    elif r < 0.6:
        o = {"vmin": a, "vmax": None} if rng.random() < 0.5 else {"vmin": None, "vmax": b}
    elif r < 0.8:
        o = {"vmin": a, "vmax": b, "adjust_values": True}
    else:
        o = {"vmin": None, "vmax": None, "adjust_values": True}
    if rng.random() < 0.2:
        o["tolerance"] = float(rng.choice([1e-6, 1e-10, 1e-3]))
    if rng.random() < 0.15:
        o["least_squares_params"] = {"max_nfev": int(rng.integers(3, 40))}
    elif rng.random() < 0.1:
        # (robust losses are deliberately not generated: with e.g. loss="soft_l1" the caller asks
        # for another objective than the squared deviation the property speaks about)
        o["least_squares_params"] = {"method": "dogbox"} if hostile else {"x_scale": "jac"}
    return o


def _gen(rng, kind, tier):
    dim = int(rng.choice([1, 2, 2, 2, 3]))
    spec = _grid(rng, dim)
    fam = spec["family"]
    cls = str(rng.choice(_classes(dim, fam)))
    truth = _truth(rng, spec, cls)
    levels = (0.0, 1.0)
    if kind == "self":
        cand = dict(truth)
        if cand["cls"] != "SphericalDroplet" and rng.random() < 0.2:
            cand["width"] = truth["width"]
        image = {"type": "self"}
        if rng.random() < 0.4:
            levels = (float(rng.integers(-24, 24)) / 8, 0.0)
            levels = (levels[0], levels[0] + float(rng.choice([0.5, 2.0, 8.0])))
        image["levels"] = list(levels)
        r = rng.random()
        if r < 0.6:
            opts = {"vmin": levels[0], "vmax": levels[1]}
        elif r < 0.8:
            opts = {"vmin": levels[0], "vmax": levels[1], "adjust_values": True}
        else:
            opts = _opts(rng, levels)
        if cand["cls"] == "SphericalDroplet" or cand["width"] in (None, 0.0):
            # the statement's self-render clause needs a candidate that has a diffuse profile
            cand = dict(cand)
            cand["cls"] = "DiffuseDroplet" if cand["cls"] == "SphericalDroplet" else cand["cls"]
            cand["width"] = truth["width"] or float(np.mean(geom.spacing(spec)))
        return {"grid": spec, "cand": cand, "image": image, "opts": opts, "route": common.pick_route(rng, 0.7)}
    if kind == "fit":
        t = rng.random()
        if t < 0.6:
            if rng.random() < 0.4:
                a = float(rng.integers(-24, 24)) / 8
                levels = (a, a + float(rng.choice([0.5, 2.0, 8.0])))
            image = {"type": "other", "truth": truth, "levels": list(levels),
                     "noise": float(rng.choice([0.0, 0.0, 0.05])) * (levels[1] - levels[0]),
                     "seed": int(rng.integers(1 << 30))}
        elif t < 0.8:
            levels = (-3.0, 5.0)
            image = {"type": "other", "truth": _truth(rng, spec, cls), "levels": list(levels),
                     "noise": 0.0, "seed": 0}
        else:
            image = {"type": "other", "truth": truth, "levels": [0.0, 1.0], "noise": 0.05,
                     "seed": int(rng.integers(1 << 30))}
        cand = _perturb(rng, spec, truth, 1.0)
        return {"grid": spec, "cand": cand, "image": image, "opts": _opts(rng, levels), "route": common.pick_route(rng, 0.7)}
    if kind == "hostile":
        t = rng.random()
        if t < 0.4:
            image = {"type": "noise", "seed": int(rng.integers(1 << 30)),
                     "scale": float(rng.choice([1.0, 1e-3, 1e3]))}
        elif t < 0.7:
            image = {"type": "const", "value": float(rng.choice([0.0, 1.0, -3.5, 0.5]))}
        else:
            image = {"type": "other", "truth": _truth(rng, spec, cls), "levels": [0.0, 1.0],
                     "noise": 0.3, "seed": int(rng.integers(1 << 30))}
        cand = _perturb(rng, spec, truth, 1.5)
        if rng.random() < 0.15:
            cand["radius"] = float(rng.choice([0.0, 0.2 * float(np.mean(geom.spacing(spec)))]))
        return {"grid": spec, "cand": cand, "image": image, "opts": _opts(rng, (0.0, 1.0), hostile=True),
                "route": common.pick_route(rng, 0.7)}
    raise ValueError(kind)


PREVIEWS = [{"least_squares_params": {"max_nfev": 3}}, {"least_squares_params": {"ftol": 1e-1, "xtol": 1e-1}},
            {"least_squares_params": {"method": "dogbox", "max_nfev": 5}}, {"tolerance": 1e-1},
            {"vmin": None, "vmax": None, "adjust_values": True}]


def gen(rng, kind, tier):
    case = _gen(rng, kind, tier)
    if case is not None and rng.random() < 0.06:
        case["blemish"] = int(rng.integers(1, 1 << 30))
    if case is not None and rng.random() < 0.04:
        case["via_workers"] = True
    g_ = case["grid"] if case is not None else None
    if (case is not None and kind in ("self", "fit") and g_["family"] == "cart" and len(g_["shape"]) == 2 and not any(g_["periodic"])
            and case["cand"]["cls"] == "DiffuseDroplet" and case["cand"].get("width") not in (None, 0.0) and rng.random() < 0.5):
        # candidate (and true droplet) of a class the user derived from DiffuseDroplet, with its own rendering
        case["user_class"] = "Squashed"
        case["route"] = "ctor"
        if case["image"].get("truth") and case["image"]["truth"]["cls"] != "DiffuseDroplet":
            case.pop("user_class")
    if case is not None and case["image"]["type"] == "other" and rng.random() < 0.15:
        # the image as a camera delivers it: integer grey values (the two intensity levels are mapped to grey
        # values g0 < g1 and the pixels rounded), or single precision
        dt = str(rng.choice(["uint8", "uint8", "uint16", "int16", "int32", "float32"]))
        top = {"uint8": 255, "uint16": 65535, "int16": 32767, "int32": 100000, "float32": 255}[dt]
        g0 = int(rng.integers(5, top // 3))
        case["grey"] = {"dtype": dt, "g0": g0, "g1": int(rng.integers(g0 + top // 3, top - 4))}
    if case is not None and rng.random() < 0.1:
        # an earlier refinement of the same candidate with other options (its outcome is not judged):
        # earlier calls must not influence later ones
        case["preview"] = PREVIEWS[int(rng.integers(len(PREVIEWS)))]
    return case


# ------------------------------------------------------------------ oracle


def build_image(grid, spec, case):
    im = case["image"]
    shape = tuple(spec["shape"])
    if im["type"] == "self":
        a, b = im["levels"]
        return np.array(make_droplet(case["cand"]).get_phase_field(grid, vmin=a, vmax=b).data, float)
    if im["type"] == "other":
        a, b = im["levels"]
        data = np.array(make_droplet(im["truth"]).get_phase_field(grid, vmin=a, vmax=b).data, float)
        if im["noise"]:
            data = data + np.random.default_rng(im["seed"]).normal(0, im["noise"], shape)
        return data
    if im["type"] == "noise":
        return np.random.default_rng(im["seed"]).normal(0, 1, shape) * im["scale"]
    if im["type"] == "const":
        return np.full(shape, im["value"])
    raise ValueError(im["type"])


def _params(d):
    from numpy.lib.recfunctions import structured_to_unstructured

    return np.atleast_1d(structured_to_unstructured(d.data)).astype(float)


def run(case, rec):
    _USER["on"] = bool(case.get("user_class"))
    try:
        if _USER["on"]:
            rec.count("candidates_of_a_user_defined_subclass")
        _run(case, rec)
    finally:
        _USER["on"] = False


def _run(case, rec):
    import droplets
    from droplets import droplets as dmod
    from droplets.image_analysis import refine_droplet
    from pde import ScalarField
    from scipy import ndimage

    spec = case["grid"]
    grid = geom.make_grid(spec)
    fam = spec["family"]
    dim = geom.space_dim(spec)
    image = build_image(grid, spec, case)
    grey = case.get("grey")
    if grey:
        lo, hi = case["image"]["levels"]
        g0, g1 = grey["g0"], grey["g1"]
        dt = np.dtype(grey["dtype"])
        image = g0 + (image - lo) * ((g1 - g0) / (hi - lo))
        if dt.kind in "iu":
            info = np.iinfo(dt)
            image = np.clip(np.round(image), info.min, info.max)
        else:
            image = image.astype(dt).astype(float)
        # supplied levels are given as grey values too (plain python ints, as one would type them)
        case = dict(case)
        case["opts"] = {k: ((g0 if v == lo else g1 if v == hi else v) if k in ("vmin", "vmax") and v is not None else v)
                        for k, v in case["opts"].items()}
        case["image"] = dict(case["image"], levels=[g0, g1])
        rec.count(f"image_dtype:{dt.name}")
    if case.get("blemish") and not (grey and np.dtype(grey["dtype"]).kind in "iu"):
        # a few non-finite pixels far away from the candidate (e.g. masked-out sensor pixels): they lie
        # outside the fit region, so the fit is unaffected - and the image must still not be modified
        probe = make_droplet(case["cand"])
        pr = probe if isinstance(probe, dmod.DiffuseDroplet) else dmod.DiffuseDroplet.from_droplet(probe)
        wv = pr.interface_width if pr.interface_width is not None else float(grid.typical_discretization)
        near = ndimage.binary_dilation(np.asarray(pr.copy(interface_width=wv).get_phase_field(grid).data, float) > 1e-6,
                                       iterations=3 + int(2 * wv / float(grid.typical_discretization)))
        far = np.argwhere(~near)
        if len(far):
            r_b = np.random.default_rng(case["blemish"])
            for k in r_b.choice(len(far), size=min(3, len(far)), replace=False):
                image[tuple(far[k])] = [np.nan, np.inf, -np.inf][int(r_b.integers(3))]
            rec.count("images_with_non_finite_pixels_outside_the_fit_region")
    field = ScalarField(grid, image.copy()) if not grey else ScalarField(grid, image.astype(np.dtype(grey["dtype"])), dtype=np.dtype(grey["dtype"]))
    dig0 = hashlib.blake2b(field.data.tobytes(), digest_size=16).hexdigest()
    cand = common.via(make_droplet(case["cand"]), case.get("route"))  # provenance must not matter
    rec.count(f"route:{case.get('route')}")
    cand_copy = cand.copy()
    opts = {k: (dict(v) if isinstance(v, dict) else v) for k, v in case["opts"].items()}

    if case.get("preview"):
        pk = {**opts, **{k: (dict(v) if isinstance(v, dict) else v) for k, v in case["preview"].items()}}
        common.monitored(rec, "preview:refine_droplet", refine_droplet, field, cand.copy(), **pk)  # not judged
        rec.count("preceded_by_a_call_with_other_options")
    if case.get("via_workers"):
        # the same request made through refine_droplets with worker processes (the solver then runs in a child
        # process, where it is not observed: the clauses that need the solver's view are skipped)
        from droplets.image_analysis import refine_droplets

        def refine_in_workers():
            # (candidates may be any iterable: a list or a one-shot generator)
            cands = [cand] if len(case["cand"]["pos"]) % 2 else (c for c in [cand])
            out = refine_droplets(field, cands, num_processes=2, **opts)
            if len(out) != 1:
                raise RuntimeError(f"refine_droplets returned {len(out)} droplets for one candidate")
            return out[0]

        with monitors.optimize_proxy() as proxy:
            call = common.monitored(rec, "refine_droplet", refine_in_workers)
        rec.count("refined_through_worker_processes")
    else:
        with monitors.optimize_proxy() as proxy:
            call = common.monitored(rec, "refine_droplet", refine_droplet, field, cand, **opts)
    rec.hit("proxy:least_squares", len(proxy.calls))
    label = (f"cand={case['cand']} opts={case['opts']} image={case['image'].get('type')} "
             f"grid={geom.grid_label(spec)}{spec['shape']}")
    if not rec.check(call.ok, "returns",
                     f"refine_droplet raised {common.exc_text(call.exc) if call.exc else ''}; {label}"):
        rec.evaluated(nontrivial=False)
        return
    res = call.result
    rec.count(f"table:{case['cand']['cls']}|{geom.grid_label(spec)}|{case['image']['type']}")

    # image untouched
    rec.check(hashlib.blake2b(field.data.tobytes(), digest_size=16).hexdigest() == dig0,
              "image-unchanged", f"refine_droplet modified the image; {label}")
    # class
    want = type(cand_copy) if isinstance(cand_copy, dmod.DiffuseDroplet) else dmod.DiffuseDroplet
    rec.check(type(res) is want, "class", f"result is {type(res).__name__}, expected {want.__name__}; {label}")
    if not isinstance(res, dmod.DiffuseDroplet):
        rec.evaluated(nontrivial=False)
        return
    p = _params(res)
    okfin = bool(np.all(np.isfinite(p)))
    rec.check(okfin, "finite", f"result parameters {p.tolist()} not finite; {label}")
    # bounds
    okb = res.radius >= 0 and (res.interface_width is not None and res.interface_width >= 0)
    if hasattr(res, "amplitudes"):
        okb = okb and bool(np.all(np.abs(res.amplitudes) <= 1.0))
    rec.check(okb, "bounds", f"result violates bounds: radius={res.radius} width={res.interface_width} "
              f"amps={getattr(res, 'amplitudes', None)}; {label}")
    # symmetry-constrained coordinates bit-identical
    cons = list(grid.coordinate_constraints)
    if cons:
        same = np.asarray(res.position)[cons].tobytes() == np.asarray(cand_copy.position)[cons].tobytes()
        if not same:  # accept -0.0 vs 0.0
            same = bool(np.all(np.asarray(res.position)[cons] == np.asarray(cand_copy.position)[cons]))
        rec.check(same, "constrained-coords",
                  f"coordinates {cons} fixed by the grid symmetry changed from "
                  f"{np.asarray(cand_copy.position)[cons].tolist()} to {np.asarray(res.position)[cons].tolist()}; {label}")
    # wrapped into the box on periodic axes
    periods = geom.cart_periodicity(spec)
    if fam == "cart":
        b = np.asarray(spec["bounds"], float)
        for a in range(dim):
            if spec["periodic"][a]:
                La = b[a, 1] - b[a, 0]
                rec.check(b[a, 0] - 1e-9 * La <= res.position[a] <= b[a, 1] + 1e-9 * La, "wrapped",
                          f"result position {list(map(float, res.position))} outside the box on periodic axis {a}; {label}")
    elif fam == "cyl" and spec["periodic_z"]:
        z0, z1 = spec["bounds_z"]
        rec.check(z0 - 1e-9 <= res.position[2] <= z1 + 1e-9, "wrapped",
                  f"result z={float(res.position[2])} outside [{z0},{z1}]; {label}")

    # ---- deviation over the specified fit region, recomputed independently
    promoted = cand_copy if isinstance(cand_copy, dmod.DiffuseDroplet) else dmod.DiffuseDroplet.from_droplet(cand_copy)
    promoted = promoted.copy()
    if promoted.interface_width is None:
        promoted.interface_width = float(grid.typical_discretization)
    binary = np.asarray(promoted.get_phase_field(grid).data, float) > 0.5
    if promoted.interface_width == 0:
        binary = np.asarray(promoted.get_phase_field(grid).data, float) >= 1.0
    # the interface width is a length: the region extends 1 + floor(2 w / h) cells beyond the candidate
    # (h = the grid's typical spacing).  If 2 w / h is an integer up to round-off both counts are specified.
    wc = 2 * promoted.interface_width / float(grid.typical_discretization)
    iters = 1 + int(wc)
    region = ndimage.binary_dilation(binary, iterations=iters)
    m = int(region.sum())
    pc = proxy.calls[-1] if proxy.calls else None
    if pc is not None and abs(wc - round(wc)) < 1e-9 and pc["m"] != m:
        n_w = int(round(wc))
        alt = ndimage.binary_dilation(binary, iterations=max(1, n_w if iters == 1 + n_w else 1 + n_w))
        if int(alt.sum()) == pc["m"]:
            region, m = alt, int(alt.sum())
            rec.count("fit_region_count_decided_by_round_off")
    if pc is None:
        rec.count("proxy_not_reached")
    data = image[region]
    o = case["opts"]
    vmin, vmax = o.get("vmin", 0.0), o.get("vmax", 1.0)
    if m == 0:
        rec.count("empty_fit_region")  # nothing to compare: the deviation is zero either way
        rec.evaluated(nontrivial=False)
        return
    if vmin is None:
        vmin = float(data.min())
    if vmax is None:
        vmax = float(data.max())
    fitted = bool(o.get("adjust_values")) and (vmax - vmin) != 0
    cand_model = np.asarray(promoted.get_phase_field(grid, vmin=vmin, vmax=vmax).data, float)[region]
    cost_cand = 0.5 * float(np.sum((cand_model - data) ** 2))
    if fam == "cyl" and spec["periodic_z"]:
        # py-pde 0.58 measures distances on periodic cylindrical grids without wrapping z (known
        # finding pde-cyl-periodic-metric of C03): renders - and hence every cost - are only
        # meaningful while no cell of the fit region is more than half a period away from the
        # centres involved (candidate, solver optimum before wrapping, returned droplet)
        zc = geom.cell_centers_cart(grid)[..., 2][region]
        Lz = spec["bounds_z"][1] - spec["bounds_z"][0]
        centres = [float(cand_copy.position[2]), float(res.position[2])]
        if pc is not None and "x" in pc:
            centres.append(float(pc["x"][0]))
        if any(bool(np.any(np.abs(zc - c) > Lz / 2)) for c in centres):
            rec.count("known_subdomain:pde-cyl-periodic-metric")
            rec.evaluated(nontrivial=False)
            return
    if fitted and pc is not None and "x" in pc:
        fv, fr = float(pc["x"][-2]), float(pc["x"][-1])
        out_levels = (fv, fv + fr)
    elif fitted:
        # the fitted levels were not observable (solver reached some other way): use the levels
        # that fit the returned shape best - the solver's own levels cannot do better, so this
        # never demands more than the statement does
        shape01 = np.asarray(res.get_phase_field(grid, vmin=0.0, vmax=1.0).data, float)[region]
        A = np.stack([np.ones_like(shape01), shape01], axis=1)
        sol, *_ = np.linalg.lstsq(A, data, rcond=None)
        out_levels = (float(sol[0]), float(sol[0] + sol[1]))
        rec.count("fitted_levels_not_observed:best_fit_levels_used")
    else:
        out_levels = (vmin, vmax)
    res_model = np.asarray(res.get_phase_field(grid, vmin=out_levels[0], vmax=out_levels[1]).data, float)[region]
    cost_out = 0.5 * float(np.sum((res_model - data) ** 2))
    scale = max(cost_cand, 1e-300)
    rec.check(cost_out <= cost_cand * (1 + 1e-9) + 1e-18 * max(1.0, m * (vmax - vmin) ** 2), "cost-not-worse",
              f"squared deviation over the fit region grew from {cost_cand!r} to {cost_out!r}; {label}")
    rec.note_max("max_cost_ratio", cost_out / scale if cost_cand > 1e-20 else 0.0)
    nontrivial = False
    if pc is not None and "cost" in pc:
        lsq = o.get("least_squares_params") or {}
        plain_loss = lsq.get("loss", "linear") == "linear"
        rec.check(pc["m"] == m, "region-size",
                  f"the solver was given {pc['m']} residuals but the specified fit region has {m} cells; {label}")
        if plain_loss and pc["m"] == m:
            # The solver's objective must be the squared deviation over the specified region up to ONE
            # positive constant factor q (an implementation may measure residuals in other units, e.g.
            # of the intensity range): q is read off at the start and must hold at the end as well.
            floor = 1e-18 * max(1.0, m * (vmax - vmin) ** 2)
            if cost_cand > 1e6 * floor and pc["cost0"] > 0:
                q = cost_cand / pc["cost0"]
                rec.check(np.isfinite(q) and q > 0, "start-cost-agrees",
                          f"cost at the start seen by the solver {pc['cost0']!r} vs deviation of the candidate over the "
                          f"specified region {cost_cand!r}: no positive factor relates them; {label}")
                rng2 = (vmax - vmin) ** 2
                rec.note_count("solver_cost_units", "deviation" if abs(q - 1) <= 1e-6 else (
                    "deviation/range^2" if rng2 > 0 and abs(q / rng2 - 1) <= 1e-6 else "other"))
                tol = 1e-9 * max(cost_out, q * pc["cost"]) + floor
                rec.check(abs(q * pc["cost"] - cost_out) <= tol, "end-cost-agrees",
                          f"result.cost {pc['cost']!r} (x {q!r} = {q * pc['cost']!r}) != deviation of the returned droplet "
                          f"{cost_out!r}; {label}")
            else:
                rec.count("start_cost_zero:proportionality_not_checked")
        # the solver's parameter bounds: amplitudes in [-1,1], radius/width >= 0
        if pc["bounds"] is not None:
            lo, hi = pc["bounds"]
            rec.check(bool(np.all(pc["x"] >= lo - 1e-12) and np.all(pc["x"] <= hi + 1e-12)), "solver-bounds",
                      f"solution {pc['x'].tolist()} outside the bounds passed to the solver; {label}")
        nontrivial = (pc["nfev"] > 1 and pc["cost"] < pc["cost0"]) or bool(np.any(pc["active_mask"] != 0))
        if bool(np.any(pc["active_mask"] != 0)):
            rec.count("fits_with_active_bound")
        # self-render clause
        if pc["cost0"] is not None and pc["cost0"] <= 1e-24 * m * max(1.0, (vmax - vmin) ** 2):
            a, bq = _params(promoted), _params(res)
            a2 = a.copy()
            a2[:dim] = 0
            b2 = bq.copy()
            b2[:dim] = np.linalg.norm(geom.min_image(bq[:dim] - a[:dim], periods))
            err = float(np.max(np.abs(a2 - b2))) / max(1.0, float(np.max(np.abs(a))))
            rec.check(err <= 1e-6, "self-render-unchanged",
                      f"image rendered from the candidate itself, yet parameters moved by {err} (relative); {label}")
            rec.count("self_render_cases_with_zero_start_residual")
    rec.evaluated(nontrivial=nontrivial)


def sentinels(rec):
    g2 = {"family": "cart", "bounds": [[0, 16], [0, 16]], "shape": [16, 16], "periodic": [False, True]}
    truth = {"cls": "DiffuseDroplet", "pos": [8.0, 8.0], "radius": 4.0, "width": 1.0, "amps": None}
    cand = {"cls": "DiffuseDroplet", "pos": [8.3, 8.0], "radius": 3.5, "width": 1.0, "amps": None}
    cases = [
        # D14: fitted levels with offset intensities (initial guess used vmax instead of the range)
        {"grid": g2, "cand": cand, "image": {"type": "other", "truth": truth, "levels": [-3.0, -1.0],
                                             "noise": 0.0, "seed": 0},
         "opts": {"vmin": None, "vmax": None, "adjust_values": True}},
        # D13: flat image with fitted levels
        {"grid": g2, "cand": cand, "image": {"type": "const", "value": 1.0},
         "opts": {"vmin": None, "vmax": None, "adjust_values": True}},
        # D15: empty fit region (candidate misses every cell centre), automatic levels
        {"grid": {"family": "cart", "bounds": [[0, 10], [0, 1]], "shape": [2, 10], "periodic": [False, False]},
         "cand": {"cls": "DiffuseDroplet", "pos": [5.0, 0.45], "radius": 0.56, "width": None, "amps": None},
         "image": {"type": "const", "value": 0.0}, "opts": {"vmin": None, "vmax": None}},
    ]
    for c in cases:
        c["kind"] = "sentinel"
        with rec.case("sentinel", c):
            run(c, rec)


def run_shard(spec, rec):
    from droplets import image_analysis as ia

    rec.watch(ia.refine_droplet)
    if spec["kind"] == "fit" and spec["start"] == 0:
        sentinels(rec)
    common.run_generated(spec, rec, gen, run, ID)


def replay(v, rec):
    with rec.case(v["kind"], v["case"]):
        run(v["case"], rec)
