"""C09 - analysis never aborts on valid input and returns finite droplets.

Monitor: exception-recording wrappers (call event first, so a crash is attributed to its
call) around every public entry point named by the property, plus a finiteness
post-condition on all returned droplets; documented invalid requests must raise the
documented type.
"""

from __future__ import annotations

import numpy as np

from ..oracles import geom
from . import common, tracking
from .c03 import _rand_droplet, make_droplet

ID = "C09"
RULE = (
    "cases: locate = finite fields {N(0,1) noise, constants 0/1/-3.5, binary at 3 densities, "
    "smoothed noise, x1e3 rescaled, rendered emulsions} on {Cartesian d=1..3 shapes 1..8 with "
    "per-axis spacing U(0.3,2.5), polar, spherical, cylindrical +- periodic z, N 1..12} x "
    "threshold {0.5,0,auto,extrema,mean,otsu} x minimal_radius {-inf,0,0.5,2} x modes 0..4 x "
    "width {None,0,0.7,2} x refine x refine_args {default, automatic, fitted, both} x "
    "num_processes {1, occasionally 2}; render = "
    "droplets of every class on compatible grids incl. exactly on cell centres; track = time "
    "courses incl. empty frames, both methods; storage/trackers = from_storage and both tracker "
    "handle() methods driven directly; documented = invalid requests that must raise the "
    "documented error. Non-trivial = the call returned >=1 droplet or reached refinement "
    "(locate), or is not a trivially empty input (others). Distinct = digest of the case."
)
ASSUMPTIONS = [
    "valid input = finite ScalarField on a supported grid with documented option values",
    "documented errors (closed list): modes>0 in 1-D -> ValueError; droplet/grid dimension mismatch "
    "-> ValueError; non-ScalarField -> TypeError; perturbed class in the wrong dimension, off-axis "
    "axisymmetric droplet, negative radius/width -> ValueError; unknown tracking / length-scale "
    "method -> ValueError; structure factor on a non-Cartesian grid -> NotImplementedError",
    "an unset interface width (NaN) is not a finiteness violation",
]
REQUIRED_MONITORS = {"call:locate_droplets": 500, "post:finite": 500, "call:get_phase_field": 100,
                     "call:from_emulsion_time_course": 100, "call:DropletTracker.handle": 20,
                     "call:LengthScaleTracker.handle": 20, "post:documented-error": 20}
MIN_NONTRIVIAL = 200


def plan(tier, seed):
    if tier == "quick":
        kinds = {"locate": 5000, "render": 1200, "track": 1200, "storage": 120, "trackers": 250,
                 "documented": 150}
        per = 450
    else:
        kinds = {"locate": 150000, "render": 30000, "track": 30000, "storage": 4000, "trackers": 8000,
                 "documented": 1500}
        per = 6000
    return common.shards(kinds, per_shard=per, tier=tier, seed=seed, timeout_s=3000)


# ------------------------------------------------------------------ fields


def rand_grid(rng):
    fam = str(rng.choice(["cart", "cart", "cart", "polar", "sph", "cyl", "cyl"]))
    if fam == "cart":
        dim = int(rng.choice([1, 2, 2, 3]))
        return geom.rand_cart_spec(rng, dim, nmin=1, nmax=8)
    if fam in ("polar", "sph"):
        return geom.rand_sym_spec(rng, fam, nmin=1, nmax=12)
    if rng.random() < 0.25:
        # strongly elongated cells (dz/dr down to 0.05 or up to 10): candidates may cover no support point
        return geom.rand_cyl_spec(rng, nmin=1, nmax=12, ratio=(0.05, 0.2) if rng.random() < 0.5 else (5.0, 10.0))
    return geom.rand_cyl_spec(rng, nmin=1, nmax=12)


def field_desc(rng, spec):
    t = str(rng.choice(["noise", "const", "binary", "smooth", "scaled", "emulsion", "specks"]))
    d = {"type": t, "seed": int(rng.integers(1 << 30))}
    if t == "const":
        d["value"] = float(rng.choice([0.0, 1.0, -3.5]))
    elif t == "binary":
        d["density"] = float(rng.choice([0.1, 0.5, 0.9]))
    elif t == "scaled":
        d["scale"] = float(rng.choice([1e3, 1e-3, -1.0]))
    elif t == "emulsion":
        cls = str(rng.choice(["SphericalDroplet", "DiffuseDroplet"]))
        ds = []
        for _ in range(int(rng.integers(1, 4))):
            x = _rand_droplet(rng, spec, cls)
            x["radius"] *= 1.5
            ds.append(x)
        d["droplets"] = ds
    if rng.random() < 0.25:
        # pixel types of real images: integer grey values, single precision, and binary (segmented) images
        d["dtype"] = str(rng.choice(["float32", "uint8", "uint16", "int16", "int64", "bool", "int8"]))
    return d


def one_pixel_type(fds):
    """The frames of one history share their pixel type (a simulation or a camera delivers one type; a storage
    would cast frames of another type to that of the first frame)."""
    dt = fds[0].get("dtype") if fds else None
    for d in fds:
        d.pop("dtype", None)
        if dt:
            d["dtype"] = dt
    return fds


def make_field(grid, spec, d):
    from pde import ScalarField
    from scipy import ndimage

    shape = tuple(spec["shape"])
    r = np.random.default_rng(d["seed"])
    t = d["type"]
    if t == "noise":
        data = r.normal(0, 1, shape)
    elif t == "const":
        data = np.full(shape, d["value"])
    elif t == "binary":
        data = (r.random(shape) < d["density"]).astype(float)
    elif t == "smooth":
        data = ndimage.gaussian_filter(r.normal(0, 1, shape), 1.0, mode="wrap")
        data = (data - data.min()) / max(np.ptp(data), 1e-12)
    elif t == "specks":
        data = np.zeros(shape)
        for _ in range(int(r.integers(1, 4))):  # single hot cells, preferably in the first row/column (axis, origin)
            idx = [int(r.integers(n)) for n in shape]
            if r.random() < 0.7:
                idx[0] = 0
            data[tuple(idx)] = 1.0
    elif t == "scaled":
        data = r.normal(0.5, 0.3, shape) * d["scale"]
    else:
        import droplets

        em = droplets.Emulsion([make_droplet(x) for x in d["droplets"]])
        data = np.asarray(em.get_phasefield(grid).data, float)
    if d.get("dtype"):
        dt = np.dtype(d["dtype"])
        if dt.kind == "b":
            data = data > (float(data.min()) + float(data.max())) / 2
        elif dt.kind in "iu":
            info = np.iinfo(dt)
            span = float(np.ptp(data)) or 1.0
            top = min(int(info.max), 60000)
            data = np.round((data - float(data.min())) / span * min(200, top - 20)) + (top - 220 if top > 400 else 20)
            if dt.kind == "i" and d["seed"] % 3 == 1:
                data = data - float(data.max()) + max(int(info.min), -30000) + 250  # dark end of a signed type
            elif dt.kind == "i" and d["seed"] % 3 == 2 and dt.itemsize <= 2:
                # grey values over (almost) the whole range of a signed type, e.g. a background-subtracted image
                lo_, hi_ = int(info.min) + 3, int(info.max) - 3
                data = np.round((data - float(data.min())) / (float(np.ptp(data)) or 1.0) * (hi_ - lo_)) + lo_
        return ScalarField(grid, data.astype(dt), dtype=dt)
    return ScalarField(grid, data)


def locate_opts(rng, dim):
    o = {}
    thr = rng.choice(["0.5", "0", "auto", "extrema", "mean", "otsu"])
    o["threshold"] = float(thr) if thr[0].isdigit() else str(thr)
    mr = rng.choice(["-inf", "0", "0.5", "2"])
    o["minimal_radius"] = float(mr)
    modes = int(rng.choice([0, 0, 0, 1, 2, 3, 4]))
    if dim == 1:
        modes = 0
    o["modes"] = modes
    w = rng.choice(["None", "0", "0.7", "2"])
    o["interface_width"] = None if w == "None" else float(w)
    o["refine"] = bool(rng.random() < 0.5)
    ra = int(rng.integers(0, 4))
    o["refine_args"] = [None, {"vmin": None, "vmax": None}, {"adjust_values": True},
                        {"vmin": None, "vmax": None, "adjust_values": True}][ra]
    if o["refine"] and rng.random() < 0.05:
        o["num_processes"] = [2, 2, "auto"][int(rng.integers(3))]  # worker processes are a documented option as well
    if o["refine"] and rng.random() < 0.3:
        o["shared_solver_options"] = True  # one least_squares_params dict for the whole session (see _with_shared)
    return o


_SHARED_LSQ: dict = {"max_nfev": 300}


def _with_shared(kwargs):
    """The solver options of a session live in one dictionary that is handed to every refining call."""
    if kwargs.pop("shared_solver_options", False):
        ra = dict(kwargs.get("refine_args") or {})
        ra["least_squares_params"] = _SHARED_LSQ
        kwargs["refine_args"] = ra
    return kwargs


def finite_droplets(droplets_iter):
    bad = []
    for d in droplets_iter:
        vals = np.atleast_1d(np.asarray(d.position, float)).tolist() + [d.radius]
        if hasattr(d, "amplitudes"):
            vals += list(np.atleast_1d(d.amplitudes))
        w = getattr(d, "interface_width", None)
        if w is not None:
            vals.append(w)
        if not np.all(np.isfinite(np.asarray(vals, float))):
            bad.append(str(d))
    return bad


# ------------------------------------------------------------------ generation


def _in_units(opts, spec):
    """Option values that are lengths (minimal radius, interface width) are given in the grid's unit of length."""
    u = float(spec.get("unit", 1.0))
    if u != 1.0:
        if np.isfinite(opts["minimal_radius"]):
            opts["minimal_radius"] = opts["minimal_radius"] * u
        if opts.get("interface_width") is not None:
            opts["interface_width"] = opts["interface_width"] * u
    return opts


def gen(rng, kind, tier):
    case = _gen(rng, kind, tier)
    if case is not None and "opts" in case and "grid" in case:
        _in_units(case["opts"], case["grid"])
    return case


def _gen(rng, kind, tier):
    if kind == "locate":
        spec = rand_grid(rng)
        return {"grid": spec, "field": field_desc(rng, spec), "opts": locate_opts(rng, geom.space_dim(spec))}
    if kind == "render":
        spec = rand_grid(rng)
        if min(spec["shape"]) < 1:
            return None
        d = _rand_droplet(rng, spec)
        if rng.random() < 0.08:
            # a sharp droplet of a class with an interface width (width exactly 0) whose interface passes exactly
            # through cell centres: unit cells, centre on a cell centre, whole-number radius
            dim = int(rng.choice([1, 2, 2, 3]))
            n = int(rng.integers(5, 10))
            lo = float(rng.integers(-3, 4))
            spec = {"family": "cart", "bounds": [[lo, lo + n]] * dim, "shape": [n] * dim, "periodic": [bool(rng.integers(0, 2)) for _ in range(dim)]}
            cls = "DiffuseDroplet" if dim != 2 or rng.random() < 0.5 else "PerturbedDroplet2D"
            d = {"cls": cls, "pos": [lo + int(rng.integers(1, n - 1)) + 0.5 for _ in range(dim)], "radius": float(rng.integers(1, max(2, n // 2))),
                 "width": 0.0, "amps": [0.0, 0.0] if cls.startswith("Perturbed") else None}
        return {"grid": spec, "droplet": d, "vmin": float(rng.choice([0.0, -2.0])), "vmax": float(rng.choice([1.0, 3.5]))}
    if kind == "track":
        h = tracking.random_history(rng, overlapping=bool(rng.random() < 0.3))
        return h
    if kind == "storage":
        spec = rand_grid(rng)
        n = int(rng.integers(1, 6))
        fds = one_pixel_type([field_desc(rng, spec) for _ in range(n)])
        opts = locate_opts(rng, geom.space_dim(spec))
        times = sorted(float(x) for x in rng.uniform(-5, 20, n))
        return {"grid": spec, "fields": fds, "times": times, "opts": opts}
    if kind == "trackers":
        spec = rand_grid(rng)
        n = int(rng.integers(1, 5))
        fds = one_pixel_type([field_desc(rng, spec) for _ in range(n)])
        opts = locate_opts(rng, geom.space_dim(spec))
        method = str(rng.choice(["structure_factor_mean", "structure_factor_maximum", "droplet_detection"]))
        return {"grid": spec, "fields": fds, "opts": opts, "ls_method": method}
    if kind == "documented":
        return {"which": int(rng.integers(0, 10)), "seed": int(rng.integers(1 << 30))}
    raise ValueError(kind)


# ------------------------------------------------------------------ monitored runs


def _expect_ok(rec, call, what, label):
    return rec.check(call.ok, "no-exception",
                     f"{what} raised {common.exc_text(call.exc) if call.exc else ''}; {label}")


def run(case, rec):
    import droplets
    from droplets import image_analysis as ia

    kind = case["kind"]
    if kind == "locate":
        spec = case["grid"]
        grid = geom.make_grid(spec)
        field = make_field(grid, spec, case["field"])
        o = case["opts"]
        kwargs = {k: v for k, v in o.items() if k != "refine_args"}
        if o.get("refine_args") is not None:
            kwargs["refine_args"] = dict(o["refine_args"])
        kwargs = _with_shared(kwargs)
        call = common.monitored(rec, "locate_droplets", droplets.locate_droplets, field, **kwargs)
        label = f"grid={geom.grid_label(spec)}{spec['shape']} field={case['field']['type']} opts={o}"
        rec.count(f"family:{geom.grid_label(spec)}")
        rec.count(f"field:{case['field']['type']}")
        if not _expect_ok(rec, call, "locate_droplets", label):
            rec.evaluated(nontrivial=True)
            return
        bad = finite_droplets(call.result)
        if o.get("interface_width") is not None or o["refine"]:
            # the width was supplied (or fitted), so it is not "unset": it has to be a finite number
            bad += [str(d) for d in call.result
                    if "interface_width" in (d.data.dtype.names or ()) and not np.isfinite(float(d.data["interface_width"]))]
        rec.check(not bad, "finite", f"non-finite droplet parameters {bad[:2]}; {label}")
        rec.evaluated(nontrivial=len(call.result) >= 1)
        if len(call.result) >= 1 and o["refine"]:
            rec.count("reached_refinement")
        return
    if kind == "render":
        spec = case["grid"]
        grid = geom.make_grid(spec)
        d = make_droplet(case["droplet"])
        call = common.monitored(rec, "get_phase_field", d.get_phase_field, grid, vmin=case["vmin"], vmax=case["vmax"])
        label = f"grid={geom.grid_label(spec)}{spec['shape']} droplet={case['droplet']}"
        if _expect_ok(rec, call, "get_phase_field", label):
            rec.check(bool(np.all(np.isfinite(call.result.data))), "finite-field", f"non-finite render; {label}")
        em = droplets.Emulsion([d, d.copy()])
        call = common.monitored(rec, "Emulsion.get_phasefield", em.get_phasefield, grid)
        if _expect_ok(rec, call, "Emulsion.get_phasefield", label):
            rec.check(bool(np.all(np.isfinite(call.result.data))), "finite-field", f"non-finite emulsion render; {label}")
        rec.evaluated(nontrivial=True)
        return
    if kind == "track":
        call, etc, before, after = tracking.call_tracker(case, rec)
        label = tracking._label(case)
        if _expect_ok(rec, call, "from_emulsion_time_course", label):
            bad = [b for tr in call.result for b in finite_droplets(tr.droplets)]
            rec.check(not bad, "finite", f"non-finite droplets in tracks; {label}")
        rec.evaluated(nontrivial=sum(len(f) for f in case["frames"]) > 0)
        return
    if kind == "storage":
        from pde.storage import MemoryStorage

        spec = case["grid"]
        grid = geom.make_grid(spec)
        fields = [make_field(grid, spec, fd) for fd in case["fields"]]
        storage = MemoryStorage.from_fields(times=case["times"], fields=fields)
        o = case["opts"]
        kwargs = {k: v for k, v in o.items() if k != "refine_args"}
        if o.get("refine_args") is not None:
            kwargs["refine_args"] = dict(o["refine_args"])
        kwargs = _with_shared(kwargs)
        if case["times"] and int(case["times"][0] * 1000) % 5 == 0:
            kwargs["num_processes"] = "auto"
        call = common.monitored(rec, "EmulsionTimeCourse.from_storage",
                                droplets.EmulsionTimeCourse.from_storage, storage, progress=False, **kwargs)
        label = f"grid={geom.grid_label(spec)}{spec['shape']} fields={[f['type'] for f in case['fields']]} opts={o}"
        if _expect_ok(rec, call, "from_storage", label):
            bad = [b for e in call.result for b in finite_droplets(e)]
            rec.check(not bad, "finite", f"non-finite droplets {bad[:2]}; {label}")
            rec.check(len(call.result) == len(fields), "frames", f"{len(call.result)} frames for {len(fields)} fields; {label}")
            tl = common.monitored(rec, "DropletTrackList.from_storage", droplets.DropletTrackList.from_storage,
                                  storage, refine=False, progress=False)
            _expect_ok(rec, tl, "DropletTrackList.from_storage", label)
        rec.evaluated(nontrivial=True)
        return
    if kind == "trackers":
        spec = case["grid"]
        grid = geom.make_grid(spec)
        o = case["opts"]
        tracker = droplets.DropletTracker(
            1, threshold=o["threshold"], minimal_radius=o["minimal_radius"], refine=o["refine"],
            refine_args=dict(o["refine_args"]) if o.get("refine_args") else None,
            perturbation_modes=o["modes"])
        ls = droplets.LengthScaleTracker(1, method=case["ls_method"])
        label = f"grid={geom.grid_label(spec)}{spec['shape']} fields={[f['type'] for f in case['fields']]} opts={o} ls={case['ls_method']}"
        for i, fd in enumerate(case["fields"]):
            f = make_field(grid, spec, fd)
            c1 = common.monitored(rec, "DropletTracker.handle", tracker.handle, f, float(i))
            _expect_ok(rec, c1, "DropletTracker.handle", label)
            c2 = common.monitored(rec, "LengthScaleTracker.handle", ls.handle, f, float(i))
            _expect_ok(rec, c2, "LengthScaleTracker.handle", label)
        bad = [b for e in tracker.data for b in finite_droplets(e)]
        rec.check(not bad, "finite", f"non-finite droplets {bad[:2]}; {label}")
        rec.check(len(ls.length_scales) == len(case["fields"]), "ls-recorded",
                  f"{len(ls.length_scales)} length scales for {len(case['fields'])} frames; {label}")
        rec.evaluated(nontrivial=True)
        return
    if kind == "documented":
        run_documented(case, rec)
        return
    raise ValueError(kind)


def run_documented(case, rec):
    """Documented invalid requests must raise the documented error type."""
    import droplets
    import pde
    from droplets import droplets as dmod
    from droplets import image_analysis as ia

    r = np.random.default_rng(case["seed"])
    w = case["which"]
    g1 = pde.CartesianGrid([[0, float(r.integers(4, 12))]], int(r.integers(4, 12)))
    g2 = pde.UnitGrid([int(r.integers(4, 9)), int(r.integers(4, 9))])
    g3 = pde.UnitGrid([4, 4, 4])
    f1 = pde.ScalarField(g1, r.random(g1.shape))
    f2 = pde.ScalarField(g2, r.random(g2.shape))
    table = {
        0: ("modes>0 in 1-D", ValueError, lambda: droplets.locate_droplets(f1, modes=int(r.integers(1, 4)))),
        1: ("droplet/grid dimension mismatch", ValueError,
            lambda: droplets.SphericalDroplet([1.0, 2.0], 1.0).get_phase_field(g3 if r.random() < 0.5 else g1)),
        2: ("non-ScalarField", TypeError, lambda: droplets.locate_droplets(np.asarray(f2.data))),
        3: ("perturbed class in the wrong dimension", ValueError,
            lambda: dmod.PerturbedDroplet2D([1.0, 2.0, 3.0], 1.0, 0.5, [0.1])),
        4: ("off-axis axisymmetric droplet", ValueError,
            lambda: dmod.PerturbedDroplet3DAxisSym([0.5, 0.0, 1.0], 1.0, 0.5, [0.1])),
        5: ("negative radius", ValueError, lambda: droplets.SphericalDroplet([0.0, 0.0], -float(r.uniform(0.1, 2)))),
        6: ("negative interface width", ValueError, lambda: droplets.DiffuseDroplet([0.0], 1.0, -0.5)),
        7: ("unknown tracking method", ValueError,
            lambda: droplets.DropletTrackList.from_emulsion_time_course(
                droplets.EmulsionTimeCourse([droplets.Emulsion([droplets.SphericalDroplet([0.0], 1.0)])]), method="nearest")),
        8: ("unknown length-scale method", ValueError, lambda: droplets.get_length_scale(f2, method="fourier")),
        9: ("structure factor on a non-Cartesian grid", NotImplementedError,
            lambda: droplets.get_structure_factor(pde.ScalarField(pde.PolarSymGrid(4.0, 8), 1.0))),
    }
    name, etype, fn = table[w]
    call = common.monitored(rec, f"documented:{name}", fn)
    rec.check(not call.ok and type(call.exc) is etype, "documented-error",
              f"{name}: expected {etype.__name__}, got " + (repr(call.exc) if not call.ok else f"a result {call.result!r}"[:200]))
    if w == 0:
        # the request is invalid whether or not the frame contains a droplet
        c0 = common.monitored(rec, "documented:modes>0 in 1-D (frame without droplets)", droplets.locate_droplets,
                              pde.ScalarField(g1, float(r.choice([0.0, 1.0]))), modes=int(r.integers(1, 4)),
                              minimal_radius=float(r.choice([0.0, 100.0])))
        rec.check(not c0.ok and type(c0.exc) is ValueError, "documented-error",
                  f"modes>0 in 1-D on a frame without droplets: expected ValueError, got "
                  + (repr(c0.exc) if not c0.ok else f"a result {c0.result!r}"[:200]))
    if w == 2:
        c2 = common.monitored(rec, "documented:non-ScalarField refine", ia.refine_droplet, np.zeros((4, 4)),
                              droplets.DiffuseDroplet([1.0, 1.0], 1.0, 1.0))
        rec.check(not c2.ok and type(c2.exc) is TypeError, "documented-error",
                  f"refine_droplet(non-ScalarField): expected TypeError, got {c2.exc!r}")
    rec.evaluated(nontrivial=True, key={"documented": w, "seed": case["seed"]})


def sentinels(rec):
    """Crash mechanisms repaired in /repo stay as deterministic regression cases."""
    cyl = {"family": "cyl", "radius": 4.0, "bounds_z": [0.0, 6.0], "shape": [4, 6], "periodic_z": False}
    em1 = {"type": "emulsion", "seed": 0, "droplets": [
        {"cls": "DiffuseDroplet", "pos": [0.0, 0.0, 3.0], "radius": 2.0, "width": 0.8, "amps": None}]}
    cart3 = {"family": "cart", "bounds": [[0, 5], [0, 5], [0, 5]], "shape": [5, 5, 5], "periodic": [False] * 3}
    em3 = {"type": "emulsion", "seed": 0, "droplets": [
        {"cls": "DiffuseDroplet", "pos": [2.5, 2.5, 2.5], "radius": 1.7, "width": 0.7, "amps": None}]}
    base = {"threshold": 0.5, "minimal_radius": 0.0, "interface_width": None}
    cases = [
        # D1: cylindrical + modes + refine
        {"kind": "locate", "grid": cyl, "field": em1, "opts": dict(base, modes=2, refine=True, refine_args=None)},
        # D2: 3-D perturbed droplet located exactly on a cell centre, then refined
        {"kind": "locate", "grid": cart3, "field": em3, "opts": dict(base, modes=3, refine=True, refine_args=None)},
        # D4: only off-axis objects on a cylindrical grid
        {"kind": "locate", "grid": cyl, "field": {"type": "emulsion", "seed": 0, "droplets": []},
         "opts": dict(base, modes=0, refine=False, refine_args=None)},
        # D13: flat image, fitted levels
        {"kind": "locate", "grid": {"family": "cart", "bounds": [[0, 8], [0, 8]], "shape": [8, 8], "periodic": [False, False]},
         "field": {"type": "const", "seed": 0, "value": 1.0},
         "opts": dict(base, threshold=0.0, modes=0, refine=True, refine_args={"vmin": None, "vmax": None, "adjust_values": True})},
        # D3: empty frame after a non-empty one, distance method
        {"kind": "track", "dim": 1, "grid": None, "times": [0.0, 1.0, 2.0], "method": "distance", "max_dist": None,
         "frames": [[[1.0, 0.5]], [], [[1.1, 0.5]]]},
    ]
    for c in cases:
        with rec.case(c["kind"], c):
            run(c, rec)


def run_shard(spec, rec):
    from droplets import droplet_tracks, trackers
    from droplets import image_analysis as ia
    from droplets.tools import spherical

    rec.watch(ia.locate_droplets, ia.locate_droplets_in_mask, ia.refine_droplet, ia.refine_droplets,
              ia.threshold_otsu, spherical.polar_coordinates, trackers.DropletTracker.handle,
              trackers.LengthScaleTracker.handle, droplet_tracks.DropletTrackList.from_emulsion_time_course)
    if spec["kind"] == "locate" and spec["start"] == 0:
        sentinels(rec)
    common.run_generated(spec, rec, gen, run, ID)


def replay(v, rec):
    with rec.case(v["kind"], v["case"]):
        run(v["case"], rec)
