"""Shared machinery of C06/C07: tracking histories, the monitored call, offline checkers.

A *history* is a JSON dict
    {"dim": d, "grid": spec|None, "times": [...], "frames": [[[x.., R], ...], ...],
     "method": "overlap"|"distance", "max_dist": float|None (None = not passed)}
Every droplet of a history is unique within its frame (position/radius), so that
(frame index, parameter bytes) identifies it in the recorded output.
"""

from __future__ import annotations

import itertools
import math

import numpy as np

from ..oracles import geom
from . import common

RADII = [0.3, 0.45, 0.8]


# ------------------------------------------------------------------ building / recording


def build_time_course(hist):
    import droplets

    ems = []
    for fr in hist["frames"]:
        ems.append(droplets.Emulsion([mk_member(hist, r) for r in fr]))
    return droplets.EmulsionTimeCourse(ems, times=list(hist["times"]))


MEMBER_CLASSES = {1: ["SphericalDroplet", "DiffuseDroplet"],
                  2: ["SphericalDroplet", "DiffuseDroplet", "PerturbedDroplet2D"],
                  3: ["SphericalDroplet", "DiffuseDroplet", "PerturbedDroplet3D"]}


def mk_member(hist, r):
    """Droplet of the history's member class (default spherical); width and amplitudes are a
    deterministic function of the row so that the same row always gives the same bytes."""
    from droplets import droplets as dmod

    cls = hist.get("cls") or "SphericalDroplet"
    pos, R = np.asarray(r[:-1], float), float(r[-1])
    mix = hist.get("mix")
    if mix:
        # frames mixing droplet classes (an emulsion allows that): the class is a deterministic function of the row
        cls, _, n_modes = mix[int(abs(R) * 1e6 + abs(float(pos[0])) * 1e3) % len(mix)].partition(":")
        if cls == "SphericalDroplet":
            return dmod.SphericalDroplet(pos, R)
        if cls == "DiffuseDroplet":
            return dmod.DiffuseDroplet(pos, R, hist.get("width"))
        return getattr(dmod, cls)(pos, R, hist.get("width"), [0.05 * math.sin(7.0 * R + k) for k in range(int(n_modes))])
    if cls == "SphericalDroplet":
        return dmod.SphericalDroplet(pos, R)
    width = hist.get("width")
    if cls == "DiffuseDroplet":
        return dmod.DiffuseDroplet(pos, R, width)
    n = int(hist.get("modes", 2))
    amps = [0.05 * math.sin(7.0 * R + k) for k in range(n)]
    return getattr(dmod, cls)(pos, R, width, amps)


def rand_member_class(rng, hist):
    """Give a history a random member class (half of them stay spherical)."""
    if rng.random() < 0.5:
        return hist
    if rng.random() < 0.2:
        pert = {2: "PerturbedDroplet2D", 3: "PerturbedDroplet3D"}.get(hist["dim"])
        options = [["SphericalDroplet", "DiffuseDroplet"]]
        if pert:
            options += [[pert + ":1", pert + ":3"], ["SphericalDroplet", "DiffuseDroplet", pert + ":2"]]
        hist["mix"] = options[int(rng.integers(len(options)))]
        hist["width"] = [None, 0.0, 0.37][int(rng.integers(3))]
        return hist
    hist["cls"] = str(rng.choice(MEMBER_CLASSES[hist["dim"]]))
    if hist["cls"] != "SphericalDroplet":
        hist["width"] = [None, 0.0, 0.37][int(rng.integers(3))]
    if hist["cls"].startswith("Perturbed"):
        hist["modes"] = int(rng.integers(1, 4))
    return hist


def snapshot(etc):
    return [(t, [common.droplet_bytes(d) for d in e]) for t, e in zip(etc.times, etc.emulsions)]


def call_tracker(hist, rec):
    """Monitored call; returns (Call, etc, input snapshot before, after)."""
    import droplets

    etc = build_time_course(hist)
    before = snapshot(etc)
    kwargs = {"method": hist["method"]}
    grid = geom.make_grid(hist["grid"]) if hist.get("grid") else None
    if grid is not None:
        kwargs["grid"] = grid
    if hist.get("max_dist") is not None:
        kwargs["max_dist"] = hist["max_dist"]
    call = common.monitored(rec, "from_emulsion_time_course",
                            droplets.DropletTrackList.from_emulsion_time_course, etc, **kwargs)
    after = snapshot(etc)
    return call, etc, before, after


def periods_of(hist):
    if hist.get("grid"):
        return geom.cart_periodicity(hist["grid"])
    return [None] * hist["dim"]


def frames_overlap_free(hist) -> bool:
    per = periods_of(hist)
    for fr in hist["frames"]:
        if len(fr) > 60:
            ra = np.asarray([r[-1] for r in fr], float)
            G = pair_distances(fr, fr, per) - ra[:, None] - ra[None, :]
            G[np.tril_indices(len(fr))] = np.inf
            if np.any(G < 0):
                return False
            continue
        for a, b in itertools.combinations(fr, 2):
            if geom.distance(a[:-1], b[:-1], per) < a[-1] + b[-1]:
                return False
    return True


def pair_distances(fa, fb, per) -> np.ndarray:
    """Matrix of (minimum-image) centre distances between the rows of two frames."""
    if not fa or not fb:
        return np.zeros((len(fa), len(fb)))
    A = np.asarray([r[:-1] for r in fa], float)
    B = np.asarray([r[:-1] for r in fb], float)
    diff = B[None, :, :] - A[:, None, :]
    for ax, L in enumerate(per):
        if L is not None:
            diff[..., ax] -= L * np.round(diff[..., ax] / L)
    return np.sqrt(np.einsum("ijk,ijk->ij", diff, diff))


def has_knife_edge(hist, tol=1e-9) -> bool:
    """Any pair distance within tol of a radius sum or of the cut-off?  Histories flagged
    ``exact`` live on a dyadic lattice where all these quantities are computed exactly: there an
    exact tie is decided by the strict wording of the statement instead of being skipped."""
    per = periods_of(hist)
    md = hist.get("max_dist")
    frames = hist["frames"]
    exact = bool(hist.get("exact"))

    def near(x):
        return abs(x) <= tol and not (exact and x == 0.0)

    if max((len(f) for f in frames), default=0) > 60:
        # crowded frames: the same test on whole distance matrices
        for i, fr in enumerate(frames):
            ra = np.asarray([r[-1] for r in fr], float)
            D = pair_distances(fr, fr, per)
            G = np.abs(D - ra[:, None] - ra[None, :])
            G[np.tril_indices(len(fr))] = np.inf
            if np.any(G <= tol):
                return True
            if i + 1 < len(frames):
                rb = np.asarray([r[-1] for r in frames[i + 1]], float)
                D = pair_distances(fr, frames[i + 1], per)
                if np.any(np.abs(D - ra[:, None] - rb[None, :]) <= tol):
                    return True
                if md is not None and math.isfinite(md) and np.any(np.abs(D - md) <= tol):
                    return True
        return False
    for i, fr in enumerate(frames):
        for a, b in itertools.combinations(fr, 2):
            d = geom.distance(a[:-1], b[:-1], per)
            if near(d - a[-1] - b[-1]):
                return True
        if i + 1 < len(frames):
            for a in fr:
                for b in frames[i + 1]:
                    d = geom.distance(a[:-1], b[:-1], per)
                    if near(d - a[-1] - b[-1]):
                        return True
                    if md is not None and math.isfinite(md) and near(d - md):
                        return True
    return False


def index_tracks(hist, tracks, rec):
    """Map every track member to (frame index, index in frame); None if not identifiable."""
    import droplets  # noqa: F401

    lookup = {}
    for i, (t, fr) in enumerate(zip(hist["times"], hist["frames"])):
        for j, r in enumerate(fr):
            if hist.get("member_keys") is not None:  # input-agnostic use: bytes of the real members, taken before the call
                key = bytes.fromhex(hist["member_keys"][i][j])
            else:
                key = common.droplet_bytes(mk_member(hist, r))
            lookup.setdefault((_tkey(t), key), []).append((i, j))
    out = []
    unknown = []
    used = {}
    for tr in tracks:
        members = []
        for t, d in zip(tr.times, tr.droplets):
            key = (_tkey(t), common.droplet_bytes(d))
            cands = lookup.get(key)
            if not cands:
                unknown.append((t, list(map(float, np.atleast_1d(d.position))), d.radius))
                members.append(None)
            else:
                # value-identical droplets of one frame (twins) are told apart by multiplicity: the k-th
                # occurrence in the tracks is the k-th twin; one occurrence too many is a duplicate
                k = used.get(key, 0)
                used[key] = k + 1
                members.append(cands[min(k, len(cands) - 1)])
        out.append(members)
    return out, unknown


def _tkey(t):
    """Exact value of a time stamp (1 and 1.0 are the same stamp, 2**53 + 1 and float(2**53 + 1) are not)."""
    from fractions import Fraction

    if isinstance(t, (int, np.integer)) and not isinstance(t, bool):
        return Fraction(int(t))
    return Fraction(float(t))


def _mk(r):
    import droplets

    return droplets.SphericalDroplet(np.asarray(r[:-1], float), float(r[-1]))


def links_of(indexed):
    """Set of ((i, a), (i2, b)) for consecutive members of every track."""
    links = set()
    for members in indexed:
        for m1, m2 in zip(members[:-1], members[1:]):
            if m1 is not None and m2 is not None:
                links.add((m1, m2))
    return links


# ------------------------------------------------------------------ C06 checker


def check_partition(hist, call, before, after, rec):
    """C06 clauses. Returns indexed tracks or None."""
    label = _label(hist)
    if not rec.check(call.ok, "no-exception",
                     f"from_emulsion_time_course raised {common.exc_text(call.exc) if call.exc else ''}; {label}"):
        return None
    rec.check(before == after, "input-unchanged", f"the time course passed in was modified; {label}")
    tracks = list(call.result)
    for tr in tracks:
        rec.check(len(tr.times) == len(tr.droplets), "aligned",
                  f"track has {len(tr.times)} times but {len(tr.droplets)} droplets; {label}")
    indexed, unknown = index_tracks(hist, tracks, rec)
    rec.check(not unknown, "unaltered",
              f"track members that are not droplets of the time course at their time stamp "
              f"(altered droplet or wrong time): {unknown[:3]}; {label}")
    seen = {}
    for members in indexed:
        for m in members:
            if m is not None:
                seen[m] = seen.get(m, 0) + 1
    total = [(i, j) for i, fr in enumerate(hist["frames"]) for j in range(len(fr))]
    missing = [m for m in total if m not in seen]
    dup = [m for m, c in seen.items() if c > 1]
    rec.check(not missing, "no-loss", f"droplets (frame, index) {missing[:5]} appear in no track; {label}")
    rec.check(not dup, "no-duplicate", f"droplets (frame, index) {dup[:5]} appear more than once; {label}")
    ts_all = [_tkey(t) for t in hist["times"]]
    if not all(b > a for a, b in zip(ts_all[:-1], ts_all[1:])):
        # repeated or restarting time stamps: which tracks count as alive is keyed on the stamps, so only the
        # partition itself (every droplet in exactly one track, unaltered) is demanded
        rec.count("histories_with_repeated_or_restarting_time_stamps")
    elif frames_overlap_free(hist):
        rec.hit("overlap-free-history")
        for members in indexed:
            fi = [m[0] for m in members if m is not None]
            rec.check(len(set(fi)) == len(fi), "one-per-frame",
                      f"a track holds two droplets of one frame (frames {fi}); {label}")
            rec.check(all(b == a + 1 for a, b in zip(fi[:-1], fi[1:])), "gap-free",
                      f"a track covers frames {fi}, not a run of consecutive frames; {label}")
        for tr in tracks:
            ts = list(tr.times)
            rec.check(all(b > a for a, b in zip(ts[:-1], ts[1:])), "times-increasing",
                      f"track times {ts} not increasing; {label}")
    return indexed


# ------------------------------------------------------------------ C07 checker


def check_identity(hist, indexed, rec):
    """C07 clauses (only meaningful for overlap-free frames)."""
    label = _label(hist)
    per = periods_of(hist)
    frames = hist["frames"]
    links = links_of(indexed)
    firsts = {members[0] for members in indexed if members and members[0] is not None}
    lasts = {members[-1] for members in indexed if members and members[-1] is not None}

    crowded = max((len(f) for f in frames), default=0) > 60
    _mats: dict = {}

    def dist(i, a, k, b):
        if crowded:
            m = _mats.get((i, k))
            if m is None:
                if len(_mats) >= 6:
                    _mats.clear()
                m = _mats[(i, k)] = pair_distances(frames[i], frames[k], per)
            return float(m[a, b])
        return geom.distance(frames[i][a][:-1], frames[k][b][:-1], per)

    facts = {"competition": False, "cross": False}
    if hist["method"] == "overlap":
        for (i, a), (k, b) in links:
            ok = k == i + 1 and dist(i, a, k, b) < frames[i][a][-1] + frames[k][b][-1]
            rec.check(ok, "links-overlap",
                      f"linked droplets frame {i}#{a} -> frame {k}#{b} do not overlap "
                      f"(distance {dist(i, a, k, b) if k < len(frames) else None}); {label}")
        for i in range(len(frames) - 1):
            rel = {(a, b) for a in range(len(frames[i])) for b in range(len(frames[i + 1]))
                   if dist(i, a, i + 1, b) < frames[i][a][-1] + frames[i + 1][b][-1]}
            for b in range(len(frames[i + 1])):
                if not any(bb == b for _, bb in rel):
                    rec.check((i + 1, b) in firsts, "new-track",
                              f"frame {i + 1}#{b} overlaps nothing in frame {i} but continues a track; {label}")
            deg_a, deg_b = {}, {}
            for a, b in rel:
                deg_a[a] = deg_a.get(a, 0) + 1
                deg_b[b] = deg_b.get(b, 0) + 1
            if any(v > 1 for v in deg_a.values()) or any(v > 1 for v in deg_b.values()):
                facts["competition"] = True
            else:
                got = {(a, b) for (ii, a), (kk, b) in links if ii == i and kk == i + 1}
                rec.check(got == rel, "one-to-one-followed",
                          f"overlap relation between frames {i},{i + 1} is one-to-one {sorted(rel)} "
                          f"but the links are {sorted(got)}; {label}")
            facts["cross"] |= _crosses(hist, i, rel)
    else:
        md = hist.get("max_dist")
        cutoff = math.inf if md is None else md
        for (i, a), (k, b) in links:
            ok = k == i + 1 and dist(i, a, k, b) <= cutoff
            rec.check(ok, "links-within-cutoff",
                      f"link frame {i}#{a} -> frame {k}#{b} is longer than the cut-off {cutoff}: "
                      f"{dist(i, a, k, b) if k < len(frames) else None}; {label}")
        for i in range(len(frames) - 1):
            got = {(a, b) for (ii, a), (kk, b) in links if ii == i and kk == i + 1}
            ended = [a for a in range(len(frames[i])) if (i, a) in lasts]
            started = [b for b in range(len(frames[i + 1])) if (i + 1, b) in firsts]
            for a in ended:
                for b in started:
                    rec.check(not dist(i, a, i + 1, b) <= cutoff, "no-missed-link",
                              f"track ends at frame {i}#{a} and a new one starts at frame {i + 1}#{b} "
                              f"only {dist(i, a, i + 1, b)} apart (cut-off {cutoff}); {label}")
            # closest-pair clause
            pairs = [(dist(i, a, i + 1, b), a, b) for a in range(len(frames[i]))
                     for b in range(len(frames[i + 1]))]
            # (pairs beyond the cut-off are never joined, so ties among them decide nothing)
            ds = sorted(p[0] for p in pairs if p[0] <= cutoff * (1 + 1e-9) + 1e-9)
            distinct = all(b - a > 1e-9 for a, b in zip(ds[:-1], ds[1:]))
            if len(frames[i]) >= 2 or len(frames[i + 1]) >= 2:
                facts["competition"] = True
            if distinct:
                expect = set()
                ua, ub = set(), set()
                for d, a, b in sorted(pairs):
                    if d > cutoff:
                        break
                    if a not in ua and b not in ub:
                        expect.add((a, b))
                        ua.add(a)
                        ub.add(b)
                rec.check(got == expect, "closest-pair",
                          f"frames {i},{i + 1}: links {sorted(got)} differ from repeated closest-pair "
                          f"matching {sorted(expect)} (cut-off {cutoff}); {label}")
                facts["cross"] |= _crosses(hist, i, expect)
    return facts


def _crosses(hist, i, pairs) -> bool:
    """Does some related pair (a in frame i, b in frame i+1) differ by a wrap?"""
    if not hist.get("grid"):
        return False
    per = periods_of(hist)
    frames = hist["frames"]
    for a, b in pairs:
        p, q = np.asarray(frames[i][a][:-1]), np.asarray(frames[i + 1][b][:-1])
        if abs(np.linalg.norm(q - p) - geom.distance(p, q, per)) > 1e-9:
            return True
    return False


def _label(hist):
    fr = [[[round(float(x), 4) for x in r] for r in f] for f in hist["frames"]]
    return (f"method={hist['method']} max_dist={hist.get('max_dist')} members={hist.get('cls', 'SphericalDroplet')} grid="
            f"{geom.grid_label(hist['grid']) if hist.get('grid') else None} times={hist['times']} frames={fr}")[:900]


# ------------------------------------------------------------------ workloads

CONFIGS = [("overlap", None)] + [("distance", c) for c in (0.5, 1.5, None, -1.0)]


def lattice_history(rng, sites, occupancy, box):
    """History on lattice sites (list of coordinates) with occupancy[t] = tuple of 0/1."""
    frames = []
    for occ in occupancy:
        fr = []
        for s, on in zip(sites, occ):
            if on:
                pos = [float(x + rng.uniform(-0.04, 0.04)) for x in s]
                # a vanishing droplet (radius exactly 0) now and then
                fr.append(pos + [0.0 if rng.random() < 0.08 else float(rng.choice(RADII))])
        frames.append(fr)
    return frames


def ring_sites(n):
    return [[i + 0.5] for i in range(n)], [[0.0, float(n)]]


def rect_sites(nx, ny):
    return [[i + 0.5, j + 0.5] for i in range(nx) for j in range(ny)], [[0.0, float(nx)], [0.0, float(ny)]]


LATTICE_TIME_AXES = [
    [0, 1, 2, 3, 4], [-1.5, 0, 0.25, 3.0, 7.5], [2.0, 2.5, 10.0, 11, 12],
    [200000.0, 200001.0, 200002.0, 200003.0, 200004.0],  # spacing tiny relative to the offset
    [0.0, 1e-9, 2e-9, 3e-9, 4e-9],  # spacing tiny in absolute terms
]


def lattice_cases(rng, sites, bounds, occupancy, time_mode=0, origin=0.0):
    """All (method, cut-off, grid) configurations of one occupancy history."""
    dim = len(bounds)
    shape = [int(b[1] - b[0]) * 2 for b in bounds]
    # the box does not have to start at the origin
    sites = [[x + origin for x in s_] for s_ in sites]
    bounds = [[b[0] + origin, b[1] + origin] for b in bounds]
    grid = {"family": "cart", "bounds": bounds, "shape": shape, "periodic": [True] * dim}
    T = len(occupancy)
    times = LATTICE_TIME_AXES[time_mode % len(LATTICE_TIME_AXES)][:T]
    frames = lattice_history(rng, sites, occupancy, bounds)
    out = []
    for method, cut in CONFIGS:
        for g in (None, grid):
            out.append({"dim": dim, "grid": g, "times": list(times), "frames": frames,
                        "method": method, "max_dist": cut})
    return out


def symmetric_grid_history(rng):
    """Time course on a polar / spherical grid (one centred droplet per frame) or a non-periodic
    cylindrical grid (on-axis droplets), with the grid handed to the tracker."""
    fam = str(rng.choice(["polar", "sph", "cyl", "cyl"]))
    T = int(rng.integers(2, 7))
    times = [float(t) for t in np.cumsum(rng.uniform(0.2, 2.0, T))]
    frames = []
    if fam in ("polar", "sph"):
        dim = 2 if fam == "polar" else 3
        grid = {"family": fam, "radius": 8.0, "shape": [16]}
        R = float(rng.uniform(1.0, 3.0))
        for _t in range(T):
            if rng.random() < 0.15:
                frames.append([])
                continue
            R = max(0.3, R * float(rng.uniform(0.8, 1.25)))
            frames.append([[0.0] * dim + [R]])
    else:
        dim = 3
        z0 = float(np.round(rng.uniform(-4, 4), 2))
        Lz = float(rng.uniform(16, 30))
        grid = {"family": "cyl", "radius": 6.0, "bounds_z": [z0, z0 + Lz], "shape": [6, 16], "periodic_z": False}
        k = int(rng.integers(1, 4))
        zs = list(np.sort(rng.uniform(z0 + 2, z0 + Lz - 2, k)))
        Rs = [float(rng.uniform(0.4, 1.2)) for _ in range(k)]
        for _t in range(T):
            if rng.random() < 0.12:
                frames.append([])
                continue
            fr = []
            for i in range(k):
                if rng.random() < 0.12:
                    continue
                zs[i] = float(zs[i] + rng.normal(0, 0.4))
                fr.append([0.0, 0.0, zs[i], Rs[i]])
            kept = []
            for r_ in fr:
                if all(abs(r_[2] - q[2]) >= r_[3] + q[3] + 1e-6 for q in kept):
                    kept.append(r_)
            frames.append(kept)
    method = "overlap" if rng.random() < 0.6 else "distance"
    cut = None if method == "overlap" else [None, float(rng.uniform(0.5, 3.0)), float("inf")][int(rng.integers(3))]
    return {"dim": dim, "grid": grid, "times": times, "frames": frames, "method": method, "max_dist": cut}


def random_history(rng, *, overlapping=False):
    if not overlapping and rng.random() < 0.1:
        return symmetric_grid_history(rng)
    dim = int(rng.choice([1, 2, 2, 3]))
    T = int(rng.integers(1, 9))
    if rng.random() < 0.02:
        T = 0  # a time course without any frame
    L = float(rng.uniform(6, 20))
    use_grid = bool(rng.random() < 0.5)
    periodic = [bool(rng.integers(0, 2)) for _ in range(dim)]
    if use_grid and not any(periodic):
        periodic[int(rng.integers(dim))] = True
    lo = float(rng.choice([0.0, 0.0, -L / 2, 10.0, float(np.round(rng.uniform(-5, 5), 2))]))  # box origin
    grid = {"family": "cart", "bounds": [[lo, lo + L]] * dim, "shape": [8] * dim, "periodic": periodic} if use_grid else None
    per = geom.cart_periodicity(grid) if grid else [None] * dim
    # times: strictly increasing, possibly negative, possibly containing exactly 0 later on
    mode = rng.random()
    if mode < 0.25:
        times = list(range(T))
    elif mode < 0.35:  # spacing tiny relative to the offset, or tiny in absolute terms
        if rng.random() < 0.5:
            t_base, t_step = float(rng.choice([1e5, 2e5, 1e7])), float(rng.choice([1.0, 2.0, 0.5]))
        else:
            t_base, t_step = 0.0, float(rng.choice([1e-9, 1e-10, 3e-9]))
        times = [t_base + k * t_step for k in range(T)]
    elif mode < 0.6:
        t0 = -float(rng.integers(1, 4)) * float(rng.choice([0.5, 0.75, 1.0, 2.0]))
        step = -t0 / int(rng.integers(1, 3))
        times = [t0 + k * step for k in range(T)]
    else:
        times = list(np.cumsum(rng.uniform(0.1, 3.0, T)) + rng.uniform(-10, 10))
    times = [float(t) for t in times]
    if rng.random() < 0.06:
        # integer time stamps that float64 cannot represent (e.g. nanoseconds since some epoch): they are kept as
        # python ints and have to come out of the tracker exactly
        t_base = 2 ** 53 + 1 + 2 * int(rng.integers(0, 1000))
        times = [t_base + 2 * int(k) * int(rng.integers(1, 4)) for k in range(T)]
        times = sorted(set(times))
        while len(times) < T:
            times.append(times[-1] + 2)
    n0 = int(rng.integers(0, 7))
    drops = [(lo + rng.uniform(0, L, dim), float(rng.uniform(0.2, 1.0))) for _ in range(n0)]
    frames = []
    step = float(rng.choice([0.05, 0.3, 1.0]))
    drift = rng.normal(0, 1, dim) * float(rng.choice([0.0, 0.0, 0.8]))
    for t in range(T):
        ev = rng.random()
        if ev < 0.12:
            frames.append([])  # a whole frame without droplets (droplets persist afterwards)
            continue
        new = []
        for p, R in drops:
            if R == 0:
                continue  # vanished in the previous frame
            if rng.random() < 0.12:
                if rng.random() < 0.4:
                    new.append((p + rng.normal(0, 0.02, dim), 0.0))  # shrinks to radius exactly 0 before it disappears
                continue  # death
            p2 = p + drift * step + rng.normal(0, step, dim)
            if grid:
                p2 = np.where(periodic, (p2 - lo) % L + lo, p2)
            if rng.random() < 0.06:  # splitting
                new.append((p2 + 0.6 * R, R * 0.7))
                new.append((p2 - 0.6 * R, R * 0.7))
            else:
                new.append((p2, max(0.05, R * float(rng.uniform(0.9, 1.1)))))
        if rng.random() < 0.3:
            new.append((lo + rng.uniform(0, L, dim), float(rng.uniform(0.2, 1.0))))  # birth
        if rng.random() < 0.2:
            rng.shuffle(new)  # member order changes between frames
        if overlapping and new and rng.random() < 0.08:
            new.append(new[int(rng.integers(len(new)))])  # a value-identical twin in the same frame
        if not overlapping:
            kept = []
            for p, R in new:
                if all(geom.distance(p, q, per) >= R + R2 + 1e-6 for q, R2 in kept) and \
                        all(np.any(p != q) for q, _ in kept):
                    kept.append((p, R))
            new = kept
        drops = new
        frames.append([[float(x) for x in p] + [float(R)] for p, R in new])
    method = "overlap" if rng.random() < 0.5 else "distance"
    cut = None
    if method == "distance":
        cut = [None, None, float(rng.uniform(0.1, 3.0)), float("inf"), -1.0][int(rng.integers(5))]
    hist = {"dim": dim, "grid": grid, "times": times, "frames": frames, "method": method, "max_dist": cut}
    return rand_member_class(rng, hist)


def crowd_history(rng):
    """More than a thousand droplets per frame (a foam or a dense emulsion): a jittered 1-D line or 2-D lattice of
    well separated droplets that persist, a few of which dissolve (also early ones) or nucleate."""
    dim = int(rng.choice([1, 2]))
    n = int(rng.integers(1040, 1300))
    a = 4.0
    if dim == 1:
        base = np.arange(n, dtype=float)[:, None] * a
    else:
        nx = int(math.ceil(math.sqrt(n)))
        base = np.array([[i * a, j * a] for i in range(nx) for j in range(nx)], float)[:n]
    base = base + float(rng.choice([0.0, -1000.0, 12.5]))
    radii = rng.uniform(0.4, 0.7, len(base))
    T = int(rng.integers(2, 4))
    alive = np.ones(len(base), bool)
    pos = base + rng.uniform(-0.05, 0.05, base.shape)
    frames = []
    for t in range(T):
        if t > 0:
            pos = pos + rng.uniform(-0.2, 0.2, pos.shape)
            for k in rng.choice(len(base), size=int(rng.integers(8, 20)), replace=False):
                alive[int(k)] = False  # dissolved
            alive[int(rng.integers(0, 30))] = False  # one of the first droplets as well
        rows = [[float(x) for x in pos[i]] + [float(radii[i])] for i in range(len(base)) if alive[i]]
        if t > 0 and rng.random() < 0.7:
            rows.append([float(x) for x in (base[-1] + a * (1.5 + t))] + [0.5])  # nucleated beyond the end
        if t == 0 or rng.random() < 0.5:
            # (the order of the first frame is the order of the tracks: neighbours in space are far apart in that order)
            order = rng.permutation(len(rows))
            rows = [rows[int(i)] for i in order]
        frames.append(rows)
    method = "distance" if rng.random() < 0.8 else "overlap"
    cut = [None, 1.5, 6.0, 6.0, float("inf")][int(rng.integers(5))] if method == "distance" else None
    return {"dim": dim, "grid": None, "times": [float(t) for t in range(T)], "frames": frames, "method": method, "max_dist": cut}


def exact_history(rng):
    """Droplets on a dyadic lattice with dyadic radii: touching (distance == radius sum) and
    distance == cut-off occur exactly and are decided by the strict wording of the statement."""
    dim = int(rng.choice([1, 2, 2]))
    n = int(rng.integers(4, 9))
    lo = float(rng.integers(-4, 5)) * 0.5
    T = int(rng.integers(2, 6))
    use_grid = bool(rng.random() < 0.5)
    periodic = [bool(rng.integers(0, 2)) for _ in range(dim)]
    grid = {"family": "cart", "bounds": [[lo, lo + float(n)]] * dim, "shape": [2 * n] * dim, "periodic": periodic} if use_grid else None
    frames = []
    k0 = int(rng.integers(1, 5))
    cur = []
    while len(cur) < k0:
        p = tuple(lo + float(rng.integers(0, 2 * n)) * 0.5 for _ in range(dim))
        if all(p != q for q, _ in cur):
            cur.append((p, float(rng.choice([0.25, 0.5, 0.5, 0.75, 1.0]))))
    for _t in range(T):
        nxt = []
        for p, R in cur:
            if rng.random() < 0.1:
                continue
            step = [float(rng.choice([0.0, 0.0, 0.5, -0.5, 1.0])) for _ in range(dim)]
            q = tuple(min(max(x + s_, lo), lo + n - 0.5) if not (grid and periodic[a]) else (x + s_ - lo) % n + lo
                      for a, (x, s_) in enumerate(zip(p, step)))
            if all(q != q2 for q2, _ in nxt):
                nxt.append((q, R if rng.random() < 0.8 else float(rng.choice([0.25, 0.5, 0.75, 1.0]))))
        if rng.random() < 0.25:
            q = tuple(lo + float(rng.integers(0, 2 * n)) * 0.5 for _ in range(dim))
            if all(q != q2 for q2, _ in nxt):
                nxt.append((q, float(rng.choice([0.25, 0.5, 0.75]))))
        if rng.random() < 0.2:
            rng.shuffle(nxt)
        frames.append([[float(x) for x in p] + [float(R)] for p, R in nxt])
        cur = nxt
    method = "overlap" if rng.random() < 0.6 else "distance"
    cut = None if method == "overlap" else [None, 0.5, 1.0, 1.5, float("inf")][int(rng.integers(5))]
    return {"dim": dim, "grid": grid, "times": [float(t) for t in range(len(frames))], "frames": frames,
            "method": method, "max_dist": cut, "exact": True}


def adversarial_history(rng):
    """Uniform drift across a periodic boundary, swaps, two candidates for one track."""
    dim = int(rng.choice([1, 2]))
    L = 10.0
    lo = float(rng.choice([0.0, -5.0, 10.0, 3.25]))  # box origin
    grid = {"family": "cart", "bounds": [[lo, lo + L]] * dim, "shape": [10] * dim, "periodic": [True] * dim}
    k = int(rng.integers(2, 5))
    T = int(rng.integers(2, 7))
    mode = int(rng.integers(3))
    base = [np.array([L * (i + 0.5) / k] + [float(rng.uniform(0, L))] * (dim - 1)) for i in range(k)]
    sep = L / k
    R = float(rng.uniform(0.2, 0.45) * sep)
    v = np.zeros(dim)
    v[0] = float(rng.uniform(0.1, 0.45)) * min(sep - 2 * R, 2 * R) * float(rng.choice([-1, 1]))
    frames = []
    for t in range(T):
        fr = []
        for i, b in enumerate(base):
            p = (b + v * t) % L + lo
            if mode == 1 and i == 0 and t >= T // 2:
                continue  # one droplet disappears midway
            fr.append([float(x) for x in p] + [R * (1 + 0.01 * i)])
        if mode == 2 and t % 2 == 1:
            fr = fr[::-1]
        frames.append(fr)
    method = "overlap" if rng.random() < 0.5 else "distance"
    cut = None if method == "overlap" else [None, float(sep * 0.49), float("inf")][int(rng.integers(3))]
    return rand_member_class(rng, {"dim": dim, "grid": grid, "times": [float(t) for t in range(T)], "frames": frames,
                                   "method": method, "max_dist": cut})
