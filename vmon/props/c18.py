"""C18 - detection depends on the image only through the documented threshold.

Monitor: differential post-condition ``locate_droplets(f, threshold=T, minimal_radius=rho)``
vs ``[d for d in locate_droplets_in_mask(f > tau(T)) if d.radius > rho]`` (as multisets of class and
parameter bytes), where tau is the number, (min+max)/2, the mean, or - for 'otsu' - the value the
monitored ``threshold_otsu`` returned, which must itself be a bin centre of the 256-bin
histogram whose between-class variance is within 1e-9 of the maximum computed by the
oracle's own evaluation of the definition.  Exact positive affine maps of dyadic data.
"""

from __future__ import annotations

import math

import numpy as np

from .. import monitors
from ..oracles import geom
from . import common
from .c08 import snap

ID = "C18"
RULE = (
    "cases = images on Cartesian d=1..2 grids [thorough: 3-D], polar, spherical and cylindrical "
    "grids with 4..14 cells per axis: dyadic random levels (multiples of 2^-6), rendered emulsions "
    "rounded to 2^-10 (incl. wide smooth interfaces), dyadic noise; threshold rule in {number on "
    "or between data levels, auto, extrema, mean, otsu}; minimal radius in {-inf, 0, 0.6, 1.2} "
    "(some with refine=True); each image is also analysed after an exact positive affine map "
    "a*f+b with dyadic a, b. Non-trivial = >=2 droplets in the mask, or a droplet removed by the "
    "size filter. Distinct = digest of the case."
)
ASSUMPTIONS = [
    "data and affine coefficients are dyadic so that a*f+b and the mapped thresholds are exact",
    "the mean rule is compared on images whose mean is exactly representable (dyadic data, power-of-two cell count) or "
    "not within 1e-12 of a data level",
    "Otsu: any bin centre whose between-class variance is within 1e-9 (relative) of the maximum is accepted",
]
REQUIRED_MONITORS = {"post:equals-mask-analysis": 500, "post:otsu-optimal": 100, "post:affine-invariant": 300,
                     "post:size-filter": 300}
MIN_NONTRIVIAL = 200


def plan(tier, seed):
    if tier == "quick":
        kinds = {"image": 9000, "huge": 2}
        per = 1100
    else:
        kinds = {"image": 500000, "huge": 24}
        per = 16000
    return common.shards(kinds, per_shard=per, tier=tier, seed=seed)


def _pow2(n):
    return 1 << int(math.log2(max(1, n)))


def gen(rng, kind, tier):
    if kind == "huge":
        # an image with more than a million cells (a large 2-D micrograph or a 3-D stack)
        shape = [int(rng.integers(1030, 1200)), 2 * int(rng.integers(500, 550))] if rng.random() < 0.6 else [int(rng.integers(101, 110))] * 2 + [2 * int(rng.integers(51, 56))]
        h = float(np.round(rng.uniform(0.5, 2.0), 3))
        spec = {"family": "cart", "bounds": [[0.0, h * n] for n in shape], "shape": shape, "periodic": [bool(rng.integers(0, 2)) for _ in shape]}
        return {"grid": spec, "image": {"type": "huge", "seed": int(rng.integers(1 << 30))}, "rule": "otsu",
                "minimal_radius": "0", "a": 1.0, "b": 0.0, "extreme_map": False, "nan_cells": False, "refine": False,
                "thr_seed": int(rng.integers(1 << 30)), "unit": 1.0, "no_map": True}
    fam = str(rng.choice(["cart", "cart", "cart", "cart", "polar", "sph", "cyl"]))
    if fam == "cart":
        dim = int(rng.choice([1, 2, 2])) if tier == "quick" else int(rng.choice([1, 2, 2, 3]))
        spec = geom.rand_cart_spec(rng, dim, nmin=4, nmax=14 if dim < 3 else 7)
        if rng.random() < 0.5:  # power-of-two cell count => exact mean of dyadic data
            spec["shape"] = [_pow2(n) for n in spec["shape"]]
            b = np.asarray(spec["bounds"], float)
            spec["bounds"] = [[float(b[i, 0]), float(b[i, 1])] for i in range(dim)]
    elif fam in ("polar", "sph"):
        spec = geom.rand_sym_spec(rng, fam, nmin=4, nmax=16)
    else:
        spec = geom.rand_cyl_spec(rng, nmin=4, nmax=12)
    unit = float(rng.choice([1.0, 1.0, 1.0, 1.0, 1e-9, 1e-6, 1e6]))  # length unit of the grid (e.g. nanometres in metres)
    if unit != 1.0:
        if fam == "cart":
            spec["bounds"] = [[b[0] * unit, b[1] * unit] for b in spec["bounds"]]
        elif fam in ("polar", "sph"):
            spec["radius"] = spec["radius"] * unit
        else:
            spec["radius"] = spec["radius"] * unit
            spec["bounds_z"] = [spec["bounds_z"][0] * unit, spec["bounds_z"][1] * unit]
    t = str(rng.choice(["levels", "emulsion", "smooth-emulsion", "noise"]))
    thr = str(rng.choice(["number", "number", "auto", "extrema", "mean", "otsu", "otsu"]))
    case = {"grid": spec, "image": {"type": t, "seed": int(rng.integers(1 << 30))}, "rule": thr,
            "minimal_radius": str(rng.choice(["-inf", "0", "0", "0.6", "1.2"])),
            "a": float(rng.choice([0.25, 0.5, 2.0, 8.0, 1.0])), "b": float(rng.integers(-40, 41)) / 8.0,
            "extreme_map": bool(rng.random() < 0.15), "nan_cells": bool(rng.random() < 0.12),
            "refine": bool(rng.random() < 0.06), "thr_seed": int(rng.integers(1 << 30)), "unit": unit}
    if rng.random() < 0.3:
        # images as cameras and segmentation tools deliver them: integer grey values (8/16 bit, signed and
        # unsigned) or single precision.  All generated data are dyadic with at most 11 significant bits, so
        # every pixel value is exactly representable in the chosen type and in float64
        case["dtype"] = str(rng.choice(["uint8", "uint16", "int16", "int64", "float32", "int8"]))
    if thr == "number" and "dtype" not in case and not case["extreme_map"] and rng.random() < 0.3:
        # round 7 (C18_19): the number is handed over as a single-precision numpy scalar (a grey level read from a raw
        # image) whose value has no short decimal form, and some cells of the double-precision image hold exactly that
        # value - "the given number" is the value of the scalar, so these cells do not exceed it
        case["thr_scalar"] = "float32"
    return case


def make_image(grid, spec, im):
    import droplets

    from .c03 import _rand_droplet, make_droplet

    shape = tuple(spec["shape"])
    r = np.random.default_rng(im["seed"])
    t = im["type"]
    if t == "huge":
        # a few smooth blobs plus a column pattern (even and odd columns have a different gain), grey values k/1024
        idx = np.indices(shape, sparse=True)
        data = np.zeros(shape)
        for _ in range(int(r.integers(2, 5))):
            c = [float(r.uniform(0.2, 0.8)) * n for n in shape]
            rad = float(r.uniform(0.05, 0.12)) * min(shape)
            d2 = sum((idx[a] + 0.5 - c[a]) ** 2 for a in range(len(shape)))
            data = np.maximum(data, 0.5 + 0.5 * np.tanh((rad - np.sqrt(d2)) / (0.05 * min(shape))))
        gain = np.where(np.arange(shape[-1]) % 2 == 0, 1.0, float(r.choice([0.55, 0.7, 0.93])))
        return np.round(data * gain * 1024) / 1024
    if t == "levels":
        return r.integers(0, 65, shape).astype(float) / 64.0
    if t == "noise":
        return np.round(r.normal(0.4, 0.3, shape) * 1024) / 1024
    em = droplets.Emulsion()
    for _ in range(int(r.integers(1, 5))):
        d = _rand_droplet(r, spec, "DiffuseDroplet")
        d["radius"] *= float(r.uniform(0.8, 2.0))
        hm = float(np.mean(geom.spacing(spec)))
        d["width"] = float(r.uniform(0.3, 1.0) * hm) if t == "emulsion" else float(r.uniform(2.0, 5.0) * hm)
        em.append(make_droplet(d), copy=False)
    data = np.asarray(em.get_phasefield(grid).data, float)
    return np.round(data * 1024) / 1024


def msnap(em):
    """Order-free snapshot (the statement speaks of *which* droplets are located, not their order)."""
    return sorted(snap(droplets_emulsion(em))[1])


def droplets_emulsion(em):
    import droplets

    return em if isinstance(em, droplets.Emulsion) else droplets.Emulsion(list(em), copy=False)


def otsu_variances(data, nbins=256):
    """Between-class variance for every split of the histogram, from the definition."""
    flat = np.asarray(data, float).ravel()
    lo, hi = float(flat.min()), float(flat.max())
    if hi == lo:
        lo, hi = lo - 0.5, hi + 0.5
    edges = np.linspace(lo, hi, nbins + 1)
    idx = np.clip(np.searchsorted(edges, flat, side="right") - 1, 0, nbins - 1)
    idx[flat == hi] = nbins - 1
    counts = np.bincount(idx, minlength=nbins).astype(float)
    centers = (edges[1:] + edges[:-1]) / 2
    out = np.full(nbins - 1, -np.inf)
    for i in range(nbins - 1):  # class 1 = bins 0..i, class 2 = bins i+1..
        w1 = counts[: i + 1].sum()
        w2 = counts[i + 1:].sum()
        if w1 == 0 or w2 == 0:
            out[i] = 0.0 if (w1 == 0 or w2 == 0) else out[i]
            continue
        m1 = (counts[: i + 1] * centers[: i + 1]).sum() / w1
        m2 = (counts[i + 1:] * centers[i + 1:]).sum() / w2
        out[i] = w1 * w2 * (m1 - m2) ** 2
    return centers, out


def run(case, rec):
    import droplets
    from droplets import image_analysis as ia
    from pde import ScalarField

    spec = case["grid"]
    grid = geom.make_grid(spec)
    data = make_image(grid, spec, case["image"])
    rule = case["rule"]
    dtype = None
    if case.get("dtype"):
        # grey values: integers filling the upper part of the type's range (bright images), signed types also
        # have negative pixels.  `data` stays a float64 copy of exactly the same numbers for the oracle
        dtype = np.dtype(case["dtype"])
        if dtype.kind in "iu":
            ints = np.round(data * (64 if case["image"]["type"] == "levels" else 1024)).astype(np.int64)
            info = np.iinfo(dtype)
            span = int(ints.max() - ints.min())
            if span > int(info.max) - int(info.min) - 8:
                ints = ints // (span // 200 + 1)  # 8-bit types: coarser grey values (room for the shifts below)
            top = min(int(info.max), 2 ** 20)
            ints = ints - int(ints.max()) + top - int(case["thr_seed"] % 7)  # brightest pixel close to the type's maximum
            if int(ints.min()) < int(info.min):
                ints = ints - int(ints.min()) + int(info.min)
            if dtype.kind == "i" and case["thr_seed"] % 2:
                ints = ints - int(ints.min()) + max(int(info.min), -(2 ** 20)) + int(case["thr_seed"] % 5)  # darkest pixel close to its minimum
            data = ints.astype(float)
        rec.count(f"image_dtype:{dtype.name}")
    if case.get("nan_cells") and rule == "number" and (dtype is None or dtype.kind == "f"):
        # a few invalid (NaN) pixels: they never exceed a threshold, whatever its sign
        r_n = np.random.default_rng(case["thr_seed"] + 1)
        flat = data.reshape(-1)
        for k in r_n.choice(flat.size, size=min(flat.size, int(r_n.integers(1, 5))), replace=False):
            flat[k] = np.nan
        rec.count("images_with_nan_cells")
    rho = float(case["minimal_radius"]) * float(case.get("unit", 1.0))  # a length: expressed in the grid's unit
    r = np.random.default_rng(case["thr_seed"])
    levels = np.unique(data[np.isfinite(data)]) if np.any(np.isfinite(data)) else np.array([0.0])
    thr_pass = None
    if rule == "number":
        if r.random() < 0.5 or len(levels) < 2:
            T = float(r.choice(levels))  # exactly on a data level: tests the strictness of '>'
        else:
            i = int(r.integers(len(levels) - 1))
            T = float((levels[i] + levels[i + 1]) / 2)
        thr_arg = T
        if case.get("thr_scalar") and dtype is None and len(levels) >= 2:
            T = float(np.float32(r.uniform(float(levels[0]), float(levels[-1]))))
            ties = (r.random(data.shape) < 0.06) & np.isfinite(data)
            data = data.copy()
            data[ties] = T
            thr_arg = T
            thr_pass = np.float32(T)
            assert float(thr_pass) == T
            rec.count("threshold_given_as_float32_scalar_with_cells_exactly_on_it")
    else:
        thr_arg = rule
    label = f"grid={geom.grid_label(spec)}{spec['shape']} image={case['image']} rule={rule} thr={thr_arg} rho={rho}"

    def analyse(arr, thr, refine=False, dtype=dtype):
        log: list = []
        the_field = ScalarField(grid, arr) if dtype is None else ScalarField(grid, np.asarray(arr).astype(dtype), dtype=dtype)
        with monitors.wrap_attr(ia, "threshold_otsu", monitors.recording(log, "threshold_otsu")):
            c = common.monitored(rec, "locate_droplets", droplets.locate_droplets, the_field, threshold=thr,
                                 minimal_radius=rho, refine=refine)
        rec.check(np.array_equal(np.asarray(the_field.data, float), np.asarray(arr, float), equal_nan=True)
                  and (dtype is None or the_field.data.dtype == dtype), "input-unchanged",
                  f"locate_droplets modified the field it was given; {label}")
        return c, log

    c, log = analyse(data, thr_pass if thr_pass is not None else thr_arg)
    if not rec.check(c.ok, "no-exception", f"locate_droplets raised {common.exc_text(c.exc) if c.exc else ''}; {label}"):
        rec.evaluated(nontrivial=False)
        return
    got = c.result
    # documented threshold
    tau = None
    if rule == "number":
        tau = thr_arg
    elif rule in ("auto", "extrema"):
        tau = (float(data.min()) + float(data.max())) / 2
    elif rule == "mean":
        tau = float(data.mean())
        exact = float(np.sum(data)) * 1024 == round(float(np.sum(data)) * 1024) and (data.size & (data.size - 1)) == 0
        if not exact and float(np.min(np.abs(levels - tau))) <= 1e-12:
            rec.count("mean_on_a_level_skipped")
            return
    else:
        rec.hit("wrapper:threshold_otsu", len(log))
        centers, var = otsu_variances(data)
        best = float(np.max(var))
        seen = [float(e["result"]) for e in log if "result" in e]
        if seen:
            # the threshold the monitored threshold_otsu handed to locate_droplets
            tau = seen[-1]
            j = int(np.argmin(np.abs(centers[:-1] - tau)))
            is_center = abs(centers[j] - tau) <= 1e-12 * max(1.0, abs(tau))
            rec.check(is_center and var[j] >= best * (1 - 1e-9) - 1e-300, "otsu-optimal",
                      f"Otsu threshold {tau!r} is not a bin centre maximising the between-class variance "
                      f"(nearest centre {centers[j]!r}, its variance {var[j]!r}, maximum {best!r} at {centers[int(np.argmax(var))]!r}); {label}")
        else:
            # threshold_otsu was not reached through the module attribute (e.g. inlined): the
            # threshold used is not observable, so accept any optimal bin centre (decided below)
            rec.count("otsu_threshold_not_observed")
            otsu_candidates = [float(c) for c, v in zip(centers[:-1], var) if v >= best * (1 - 1e-9) - 1e-300]
    if tau is None:
        # unobserved Otsu threshold: pick the optimal bin centre (if any) that explains the result
        tau = otsu_candidates[0]
        explained = False
        for cand_tau in otsu_candidates[:8]:
            r0 = common.monitored(rec, "locate_droplets_in_mask", ia.locate_droplets_in_mask,
                                  ScalarField(grid, data > cand_tau, dtype=bool))
            if r0.ok and msnap([d for d in r0.result if d.radius > rho] if rho > -np.inf else list(r0.result)) == msnap(got):
                tau = cand_tau
                explained = True
                break
        rec.check(explained, "otsu-optimal",
                  f"the result is not the analysis of the image thresholded at any bin centre maximising the "
                  f"between-class variance (candidates {otsu_candidates[:4]}); {label}")
    mask = ScalarField(grid, data > tau, dtype=bool)
    ref = common.monitored(rec, "locate_droplets_in_mask", ia.locate_droplets_in_mask, mask)
    if not rec.check(ref.ok, "no-exception", f"locate_droplets_in_mask raised {ref.exc!r}; {label}"):
        rec.evaluated(nontrivial=False)
        return
    cand = list(ref.result)
    expect = droplets.Emulsion([d for d in cand if d.radius > rho] if rho > -np.inf else cand, copy=False)
    rec.check(msnap(got) == msnap(expect), "equals-mask-analysis",
              f"locate_droplets returned {[(list(map(float, d.position)), d.radius) for d in got][:4]} but the mask "
              f"f > {tau!r} contains {[(list(map(float, d.position)), d.radius) for d in expect][:4]} above the minimal radius; {label}")
    rec.check(all(d.radius > rho for d in got), "size-filter", f"a returned droplet has radius <= {rho}; {label}")
    # exact positive affine map
    a, b = case["a"], case["b"]
    if case.get("extreme_map"):
        # weak contrast on a large offset / huge contrast (still exact: dyadic data, a and b)
        a, b = [(2.0 ** -10, 256.0), (2.0 ** -9, -512.0), (1024.0, 0.0), (2.0 ** -12, 1.0)][case["thr_seed"] % 4]
        rec.count("extreme_affine_maps")
    if case.get("no_map"):
        rec.evaluated(nontrivial=len(cand) >= 2)
        rec.count(f"huge:{rule}|cells:{data.size // 100000 * 100000}+")
        return
    mapped = a * data + b
    thr2 = (a * thr_arg + b) if rule == "number" else thr_arg
    c2, _ = analyse(mapped, thr2, dtype=None)  # the mapped image is always float64 (so the pixel type must not matter either)
    if rec.check(c2.ok, "no-exception", f"mapped image raised {c2.exc!r}; {label}"):
        if rule == "mean" and float(np.mean(mapped)) != a * tau + b:
            rec.count("mean_not_exact_under_map_skipped")
        elif rule == "otsu":
            # the histogram edges are linspace(min, max): only exact for some maps; require the
            # result to correspond to *some* optimal threshold of the mapped image instead
            rec.count("otsu_affine_checked_via_optimality")
        else:
            rec.check(msnap(c2.result) == msnap(got), "affine-invariant",
                      f"result changes under the exact map f -> {a}*f + {b} (threshold mapped alike): "
                      f"{len(got)} vs {len(c2.result)} droplets; {label}")
    if case["refine"] and len(cand) and rho > -np.inf and bool(np.all(np.isfinite(data))):
        c3, _ = analyse(data, thr_arg, refine=True)
        if rec.check(c3.ok, "no-exception", f"refine raised {common.exc_text(c3.exc) if c3.exc else ''}; {label}"):
            rec.check(all(d.radius > rho for d in c3.result), "size-filter",
                      f"refined result contains a droplet with radius <= {rho}: {[d.radius for d in c3.result]}; {label}")
    if case["refine"] and len(cand) and bool(np.all(np.isfinite(data))):
        # without a minimal radius nothing is filtered: every droplet of the binary image comes back, however the fit is
        # configured (also when it is cut short after a few evaluations)
        from pde import ScalarField as _SF

        nf = int(3 + case["thr_seed"] % 4)
        c4 = common.monitored(rec, "locate_droplets", droplets.locate_droplets, _SF(grid, np.asarray(data, float)), threshold=tau,
                              minimal_radius=-np.inf, refine=True, refine_args={"least_squares_params": {"max_nfev": nf}})
        if rec.check(c4.ok, "no-exception", f"refine with max_nfev={nf} raised {common.exc_text(c4.exc) if c4.exc else ''}; {label}"):
            rec.check(len(c4.result) == len(cand), "size-filter",
                      f"{len(cand)} droplets in the binary image, no minimal radius, but {len(c4.result)} come back when the fit is "
                      f"limited to {nf} evaluations; {label}")
    removed = len(cand) - len(expect)
    rec.evaluated(nontrivial=len(cand) >= 2 or removed >= 1)
    rec.count(f"rule:{rule}|{geom.grid_label(spec)}")
    if removed:
        rec.count(f"filtered:{min(removed, 5)}")


def run_shard(spec, rec):
    from droplets import emulsions
    from droplets import image_analysis as ia

    rec.watch(ia.locate_droplets, ia.threshold_otsu, emulsions.Emulsion.remove_small)
    common.run_generated(spec, rec, gen, run, ID)


def replay(v, rec):
    with rec.case(v["kind"], v["case"]):
        run(v["case"], rec)
