"""C17 - length scales are physical lengths: they scale with the grid, not the field.

Monitor: post-condition on ``get_length_scale`` (all three methods) evaluated on related
executions (stretched grid, scaled field, whole-cell rolls) and on plane waves with known
wave vector; a recording wrapper on ``image_analysis.locate_droplets`` yields the droplet
count the counting method actually used.
"""

from __future__ import annotations

import itertools
import math

import numpy as np

from .. import monitors
from ..oracles import geom
from . import common

ID = "C17"
KNOWN_KEY = "ls-peak-bracket"
KNOWN_WHAT = ("get_length_scale(method='structure_factor_maximum') with default smoothing returns NaN (or a "
              "wave number off by more than half a Fourier bin) for resolved plane waves once the grid spacing "
              "exceeds about 1/sqrt(N): the default smoothing 0.01*dx is a length used as a wave number and the "
              "search bracket [k/5, k, 5k] is rejected (witness: cos(2 pi 2 x / 32) on 32 cells of spacing 1 gives NaN)")
RULE = (
    "cases: 'meta' = a field (noise, smoothed noise, waves, rendered droplets) on a periodic "
    "Cartesian grid d=1..2 [thorough: 3] with 16..48 cells per axis and spacing log-uniform over "
    "1e-2..1e2, analysed by the moment method and by droplet counting before/after stretching the "
    "grid by c in 2^-6..2^6, scaling the field (any a != 0 for the moment method, a > 0 with "
    "automatic thresholds for counting) and rolling by whole cells; 'peak' = dominant plane wave "
    "(+ weaker wave + 1% noise) under the same relations within one Fourier bin; 'wave' = pure "
    "plane waves with integer wave vector |m_a| <= N_a/4, random amplitude/offset/phase, where the "
    "peak method must be finite and within half a bin; 'count' = droplet counting against (box "
    "volume / observed count)^(1/d). The peak method with default smoothing is exercised on "
    "grids with dx*sqrt(N_max) <= 0.9 only (known finding). Non-trivial = anisotropic grid or "
    "spacing outside [0.5, 2]. Distinct = digest of the case."
)
ASSUMPTIONS = [
    "moment and counting methods: relative tolerance 1e-10; peak method: one Fourier bin 2 pi / L_min (metamorphic), half a bin (plane waves)",
    "droplet counting is scale-invariant only for positive factors and automatic threshold rules; asserted only then",
    "counting clause asserted when at least one droplet was located",
    "peak method, default smoothing: only grids with typical spacing * sqrt(N_max) <= 0.9 (known finding ls-peak-bracket)",
]
REQUIRED_MONITORS = {"post:stretch": 200, "post:scale": 200, "post:roll": 200, "post:plane-wave": 100, "post:count": 100}
MIN_NONTRIVIAL = 100


def plan(tier, seed):
    if tier == "quick":
        kinds = {"meta": 700, "peak": 400, "wave": 900, "count": 900}
        per = 120
    else:
        kinds = {"meta": 40000, "peak": 20000, "wave": 40000, "count": 20000}
        per = 2500
    return common.shards(kinds, per_shard=per, tier=tier, seed=seed, timeout_s=3000)


def _grid(rng, dim, *, safe_peak=False, tier="quick"):
    shape = [int(rng.integers(16, 49 if dim == 1 else (41 if dim == 2 else 21))) for _ in range(dim)]
    if safe_peak:
        dx_max = 0.9 / math.sqrt(max(shape))
        dx = float(10 ** rng.uniform(-2, math.log10(dx_max)))
        h = np.array([dx * float(rng.uniform(0.8, 1.0)) for _ in range(dim)])
        if dim > 1 and rng.random() < 0.4:
            # elongated cells (the finer axis resolves shorter waves than the coarser one's Nyquist limit)
            a = int(rng.integers(dim))
            h[a] = h[a] / float(rng.choice([2.0, 4.0, 8.0]))
    else:
        dx = float(10 ** rng.uniform(-2, 2))
        h = np.array([dx * float(rng.uniform(0.6, 1.6)) for _ in range(dim)])
    lo = rng.uniform(-3, 3, dim) * dx * 5
    return {"family": "cart", "bounds": [[float(lo[a]), float(lo[a] + h[a] * shape[a])] for a in range(dim)],
            "shape": shape, "periodic": [True] * dim}


def gen(rng, kind, tier):
    case = _gen(rng, kind, tier)
    if case is not None and kind == "count" and rng.random() < 0.2:
        # other units of length: nanometres expressed in metres, kilometres in millimetres
        case["stretch"] = float(rng.choice([1e-9, 1e-6, 1e-3, 1e3, 1e6, 1e9]))
    if case is not None and case.get("field", {}).get("type") == "speckled":
        case["field"]["mr"] = case["minimal_radius_cells"]
    return case


def _gen(rng, kind, tier):
    dim = int(rng.choice([1, 2, 2])) if tier == "quick" else int(rng.choice([1, 2, 2, 3]))
    if kind == "meta" and rng.random() < 0.012:
        # grids of the size of real simulations (10^5 cells)
        shape = [int(rng.integers(300, 520)), int(rng.integers(230, 300))] if rng.random() < 0.7 else [int(rng.integers(70000, 170000))]
        h = [float(np.round(10 ** rng.uniform(-1.5, 0.5), 4)) for _ in shape]
        spec = {"family": "cart", "bounds": [[0.0, h[a] * shape[a]] for a in range(len(shape))], "shape": shape, "periodic": [True] * len(shape)}
        f = {"type": "droplets" if len(shape) == 2 else "noise", "seed": int(rng.integers(1 << 30))}
        return {"grid": spec, "field": f, "stretch": float(2.0 ** int(rng.integers(-3, 4))), "scale": float(rng.choice([-1.0, 2.0, 1e-3])),
                "roll": [int(2 * rng.integers(1, n // 4) + 1) for n in shape]}
    if kind == "meta":
        spec = _grid(rng, dim)
        if dim >= 2 and rng.random() < 0.35:
            # same number of cells along every axis (the spacings stay different)
            n0 = spec["shape"][0]
            hh = geom.spacing(spec)
            spec["shape"] = [n0] * dim
            spec["bounds"] = [[b[0], b[0] + float(hh[a]) * n0] for a, b in enumerate(spec["bounds"])]
        f = {"type": str(rng.choice(["noise", "smooth", "waves", "droplets"])), "seed": int(rng.integers(1 << 30))}
        if dim >= 2 and rng.random() < 0.25:
            # not every axis periodic: the field is only translated along the periodic ones
            per = [bool(rng.integers(0, 2)) for _ in range(dim)]
            if all(per) or not any(per):
                per = [True] + [False] * (dim - 1) if rng.random() < 0.5 else [False] * (dim - 1) + [True]
            spec["periodic"] = per
        return {"grid": spec, "field": f, "stretch": float(2.0 ** int(rng.integers(-6, 7))),
                "scale": float(rng.choice([-1.0, 2.0, 0.125, -3.5, 1e3, 1e-3, 1e-6, 1e-9, 1e7, -1e-5])),
                "roll": [int(rng.integers(-n, n + 1)) if p else 0 for n, p in zip(spec["shape"], spec["periodic"])]}
    if kind in ("peak", "wave"):
        spec = _grid(rng, dim, safe_peak=True)
        m = [int(rng.integers(-(n // 4), n // 4 + 1)) for n in spec["shape"]]
        if not any(m):
            m[0] = 1
        f = {"type": "wave", "m": m, "amp": float(10 ** rng.uniform(-2, 2)), "offset": float(rng.choice([0.0, 0.3, -2.0, 10.0])),
             "phase": float(rng.uniform(0, 2 * math.pi)), "seed": int(rng.integers(1 << 30)),
             "extra": kind == "peak"}
        # stretching must stay inside the safe domain of the peak method
        hmax = float(np.max(geom.spacing(spec)))
        cmax = 0.9 / math.sqrt(max(spec["shape"])) / hmax
        exps = [e for e in range(-6, 7) if 2.0 ** e <= cmax]
        return {"grid": spec, "field": f, "stretch": float(2.0 ** int(rng.choice(exps))),
                "scale": float(rng.choice([-1.0, 2.0, 0.125, -3.5, 1e-6, 1e6, -1e-8])), "roll": [int(rng.integers(-n, n + 1)) for n in spec["shape"]]}
    if kind == "count" and rng.random() < 0.4:
        # well separated droplets with offset/amplitude: the count is known in advance
        spec = _grid(rng, dim)
        shape = spec["shape"]
        k = int(rng.integers(1, 4))
        cells = []
        for _ in range(200):
            if len(cells) >= k:
                break
            R = float(rng.uniform(1.5, 2.5))
            c = [float(rng.uniform(0, n)) for n in shape]
            ok = all(math.sqrt(sum(min(abs(a - b), n - abs(a - b)) ** 2 for a, b, n in zip(c, c2, shape))) > R + R2 + 4
                     for c2, R2 in cells) and all(2 * R + 5 < n for n in shape)
            if ok:
                cells.append((c, R))
        if not cells:
            return None
        return {"grid": spec, "field": {"type": "separated", "cells": [[c, R] for c, R in cells],
                                        "offset": float(rng.choice([0.0, 1.0, -2.0, 10.0])), "amp": float(rng.choice([1.0, 0.25, 8.0]))},
                "threshold": str(rng.choice(["auto", "extrema", "mean"])), "stretch": float(2.0 ** int(rng.integers(-4, 5))),
                "scale": float(rng.choice([2.0, 0.125, 7.0])), "roll": [int(rng.integers(-n, n + 1)) for n in shape],
                "expected_count": len(cells)}
    if kind == "count" and rng.random() < 0.5:
        # elongated, non-winding domains next to each other: their equal-volume spheres overlap in
        # chains, so the count exercises the overlap removal; mixed periodicity (translations only
        # along the periodic axes)
        spec = _grid(rng, 2)
        if rng.random() < 0.6:
            per = [True, False] if rng.random() < 0.5 else [False, True]
            spec["periodic"] = per
        return {"grid": spec, "field": {"type": "bars", "seed": int(rng.integers(1 << 30))},
                "threshold": str(rng.choice(["0.5", "auto", "mean"])), "stretch": float(2.0 ** int(rng.integers(-4, 5))),
                "scale": float(rng.choice([2.0, 0.125, 7.0])),
                "roll": [int(rng.integers(-n, n + 1)) if p else 0 for n, p in zip(spec["shape"], spec["periodic"])]}
    if kind == "count" and dim == 2 and rng.random() < 0.25:
        # branched domains (combs) cut by a periodic boundary so that one piece on one side touches several
        # otherwise unconnected pieces on the other side
        spec = _grid(rng, 2)
        spec["periodic"] = [True, True] if rng.random() < 0.6 else [True, False]
        return {"grid": spec, "field": {"type": "combs", "seed": int(rng.integers(1 << 30))},
                "threshold": str(rng.choice(["0.5", "auto", "mean"])), "stretch": float(2.0 ** int(rng.integers(-4, 5))),
                "scale": float(rng.choice([2.0, 0.125, 7.0])),
                "roll": [int(rng.integers(-n, n + 1)) if p else 0 for n, p in zip(spec["shape"], spec["periodic"])]}
    if kind == "count" and rng.random() < 0.12:
        # the smallest droplets there are: isolated single cells (and a few two-cell clusters), counted without a minimal radius
        spec = _grid(rng, int(rng.choice([1, 1, 2])))
        return {"grid": spec, "field": {"type": "pixels", "seed": int(rng.integers(1 << 30))}, "threshold": "0.5",
                "stretch": float(2.0 ** int(rng.integers(-4, 5))), "scale": float(rng.choice([2.0, 0.125, 7.0])),
                "roll": [int(rng.integers(-n, n + 1)) for n in spec["shape"]]}
    if kind == "count" and rng.random() < 0.3:
        # droplets plus many single-cell specks, counted with a minimal radius that removes the specks
        spec = _grid(rng, dim)
        return {"grid": spec, "field": {"type": "speckled", "seed": int(rng.integers(1 << 30)), "mr": 0.0},
                "threshold": "0.5", "minimal_radius_cells": float(rng.choice([0.9, 1.2, 1.8, 2.4])),
                "stretch": float(2.0 ** int(rng.integers(-4, 5))),
                "scale": float(rng.choice([2.0, 0.125, 7.0])), "roll": [int(rng.integers(-n, n + 1)) for n in spec["shape"]]}
    if kind == "count":
        spec = _grid(rng, dim)
        return {"grid": spec, "field": {"type": "droplets", "seed": int(rng.integers(1 << 30))},
                "threshold": str(rng.choice(["0.5", "auto", "mean"])), "stretch": float(2.0 ** int(rng.integers(-4, 5))),
                "scale": float(rng.choice([2.0, 0.125, 7.0])), "roll": [int(rng.integers(-n, n + 1)) for n in spec["shape"]]}
    raise ValueError(kind)


def make_data(spec, f):
    from scipy import ndimage

    shape = tuple(spec["shape"])
    r = np.random.default_rng(f.get("seed", 0))
    t = f["type"]
    idx = np.indices(shape)
    if t == "noise":
        return r.normal(0.2, 1, shape)
    if t == "smooth":
        return ndimage.gaussian_filter(r.normal(0, 1, shape), float(r.uniform(0.7, 2.5)), mode="wrap") + 0.1
    if t == "waves":
        out = np.zeros(shape)
        for _ in range(3):
            m = [int(r.integers(-(n // 4), n // 4 + 1)) for n in shape]
            out += r.uniform(0.2, 1) * np.cos(sum(2 * math.pi * mm * idx[a] / shape[a] for a, mm in enumerate(m)) + r.uniform(0, 6))
        return out + 0.05
    if t == "droplets":
        data = np.zeros(shape)
        for _ in range(int(r.integers(1, 6))):
            c = [r.uniform(0, n) for n in shape]
            rad = r.uniform(2.0, 4.5)
            d2 = sum(np.minimum(np.abs(idx[a] + 0.5 - c[a]), shape[a] - np.abs(idx[a] + 0.5 - c[a])) ** 2 for a in range(len(shape)))
            data += 0.5 + 0.5 * np.tanh((rad - np.sqrt(d2)) / 0.8)
        return np.clip(data, 0, 1)
    if t == "speckled":
        data = np.zeros(shape)
        mrc = float(f.get("mr", 1.2))
        for _ in range(int(r.integers(1, 4))):
            c = [r.uniform(0, n) for n in shape]
            # some droplets only a little larger than the minimal radius (their halves are smaller than it)
            rad = r.uniform(2.5, 4.0) if r.random() < 0.4 else r.uniform(1.15, 1.35) * max(mrc, 1.0)
            d2 = sum(np.minimum(np.abs(idx[a] + 0.5 - c[a]), shape[a] - np.abs(idx[a] + 0.5 - c[a])) ** 2 for a in range(len(shape)))
            data = np.maximum(data, (np.sqrt(d2) < rad).astype(float))
        # isolated single cells (no two adjacent, none touching a droplet), many of them in a row
        from scipy import ndimage as _nd

        blocked = _nd.binary_dilation(data > 0.5, iterations=2)
        for flat in r.permutation(data.size)[: int(r.integers(6, 25))]:
            ii = np.unravel_index(int(flat), shape)
            if not blocked[ii]:
                data[ii] = 1.0
                mark = np.zeros(shape, bool)
                mark[ii] = True
                blocked |= _nd.binary_dilation(mark, iterations=2, structure=np.ones((3,) * len(shape)))
        return data
    if t == "pixels" and len(shape) == 2 and f.get("seed", 0) % 2 == 0:
        # staircases of single cells that touch only at their corners (separate domains under face connectivity),
        # long enough to run across the periodic boundaries
        data = np.zeros(shape)
        for _ in range(int(r.integers(1, 4))):
            i0, j0 = int(r.integers(shape[0])), int(r.integers(shape[1]))
            step = int(r.choice([-1, 1]))
            for k in range(int(r.integers(3, max(4, min(shape) - 1)))):
                data[(i0 + k) % shape[0], (j0 + step * k) % shape[1]] = 1.0
        return data
    if t == "pixels":
        data = np.zeros(shape)
        blocked = np.zeros(shape, bool)
        for flat in r.permutation(data.size)[: int(r.integers(3, 12))]:
            ii = np.unravel_index(int(flat), shape)
            if not blocked[ii]:
                data[ii] = 1.0
                mark = np.zeros(shape, bool)
                mark[ii] = True
                blocked |= ndimage.binary_dilation(mark, iterations=2, structure=np.ones((3,) * len(shape)))
        return data
    if t == "combs":
        data = np.zeros(shape)
        nx, ny = shape
        y = 1
        for _ in range(int(r.integers(1, 3))):
            teeth = int(r.integers(2, 5))
            gap = int(r.integers(1, 3))
            tooth_w = int(r.integers(1, 3))
            height = teeth * tooth_w + (teeth - 1) * gap
            if y + height >= ny - 1:
                break
            x_cut = int(r.integers(0, nx))  # the spine sits in column x_cut, the teeth in the columns before it (periodic)
            spine_w = int(r.integers(1, 3))
            tooth_len = int(r.integers(2, max(3, nx // 3)))
            for dx in range(spine_w):
                data[(x_cut + dx) % nx, y:y + height] = 1.0
            for k in range(teeth):
                y0 = y + k * (tooth_w + gap)
                for dx in range(1, tooth_len + 1):
                    data[(x_cut - dx) % nx, y0:y0 + tooth_w] = 1.0
            y += height + int(r.integers(2, 5))
        # the cut is moved onto the spine/teeth junction of the first comb: roll so that column x_cut becomes column 0
        return np.roll(data, -int(np.argmax(data.sum(axis=1) == data.sum(axis=1).max())), axis=0) if r.random() < 0.7 else data
    if t == "bars":
        data = np.zeros(shape)
        per = spec["periodic"]
        ax = 0 if per[0] or not per[1] else 1  # bars run along a periodic axis if there is one
        n_long, n_across = shape[ax], shape[1 - ax]
        k = int(r.integers(3, 7))
        lengths = r.permutation(np.arange(int(0.4 * n_long), int(0.86 * n_long)))[:k]  # pairwise distinct
        y = int(r.integers(1, 4))
        areas = set()
        for L in lengths:
            th = int(r.integers(2, 5))
            if int(L) * th in areas:  # no two bars of the same volume (an exact tie for the overlap removal)
                th = next(t for t in (2, 3, 4, 5, 6, 7) if int(L) * t not in areas)
            areas.add(int(L) * th)
            if y + th >= n_across - 1:
                break
            x0 = int(r.integers(0, n_long)) if per[ax] else int(r.integers(0, max(1, n_long - int(L))))
            xs = (x0 + np.arange(int(L))) % n_long if per[ax] else x0 + np.arange(int(L))
            sl = [None, None]
            for xx in xs:
                if ax == 0:
                    data[int(xx), y:y + th] = 1.0
                else:
                    data[y:y + th, int(xx)] = 1.0
            y += th + int(r.integers(1, 4))
        return data
    if t == "separated":
        data = np.zeros(shape)
        for c, rad in f["cells"]:
            d2 = sum(np.minimum(np.abs(idx[a] + 0.5 - c[a]), shape[a] - np.abs(idx[a] + 0.5 - c[a])) ** 2 for a in range(len(shape)))
            data += 0.5 + 0.5 * np.tanh((rad - np.sqrt(d2)) / 0.5)
        return f["offset"] + f["amp"] * np.clip(data, 0, 1)
    if t == "wave":
        ph = sum(2 * math.pi * mm * idx[a] / shape[a] for a, mm in enumerate(f["m"]))
        out = f["offset"] + f["amp"] * np.cos(ph + f["phase"])
        if f.get("extra"):
            m2 = [int(r.integers(-(n // 4), n // 4 + 1)) for n in shape]
            out = out + 0.15 * f["amp"] * np.cos(sum(2 * math.pi * mm * idx[a] / shape[a] for a, mm in enumerate(m2)) + 1.0)
            out = out + 0.01 * f["amp"] * r.normal(0, 1, shape)
        return out
    raise ValueError(t)


def field_of(spec, data):
    from pde import ScalarField

    return ScalarField(geom.make_grid(spec), np.asarray(data, float))


def stretched(spec, c):
    return {"family": "cart", "bounds": [[b[0] * c, b[0] * c + (b[1] - b[0]) * c] for b in spec["bounds"]],
            "shape": spec["shape"], "periodic": spec["periodic"]}


def ls(rec, spec, data, method, **kw):
    import droplets

    the_field = field_of(spec, data)
    keep = np.array(the_field.data, copy=True)
    call = common.monitored(rec, f"get_length_scale[{method}]", droplets.get_length_scale, the_field, method=method, **kw)
    # the analysed field belongs to the caller (it may be the state of a running simulation)
    rec.check(np.array_equal(np.asarray(the_field.data), keep, equal_nan=True), "input-unchanged",
              f"get_length_scale(method={method}) modified the field it was given (grid shape {spec['shape']})")
    return call


def bin_of(spec):
    b = np.asarray(spec["bounds"], float)
    return 2 * math.pi / float(np.min(b[:, 1] - b[:, 0]))


def run(case, rec, *, ignore_known=False):
    import droplets
    from droplets import image_analysis as ia

    spec = case["grid"]
    dim = len(spec["shape"])
    data = make_data(spec, case["field"])
    h = geom.spacing(spec)
    label = f"grid shape={spec['shape']} spacing={h.tolist()} field={case['field']} "
    kind = case["kind"]
    c = case.get("stretch", 1.0)
    a = case.get("scale", 1.0)
    axes = tuple(range(dim))
    nontrivial = (dim > 1 and float(h.max() / h.min()) > 1.05) or not (0.5 <= float(h.mean()) <= 2.0)

    def rel_same(x, y, tol):
        return (math.isfinite(x) and math.isfinite(y) and abs(x - y) <= tol * max(abs(x), abs(y))) or (x == y)

    if float(np.ptp(data)) == 0.0:
        rec.count("constant_field_skipped")  # the structure factor of a constant field is undefined
        return
    if kind == "meta":
        if dim >= 2 and len(set(spec["shape"])) == 1:
            # an unjudged analysis on the same cells with the axes' spacings exchanged comes first: what an earlier
            # call on another grid left behind must not influence this one
            sp_sw = {"family": "cart", "bounds": list(spec["bounds"][::-1]), "shape": list(spec["shape"][::-1]), "periodic": spec["periodic"]}
            common.monitored(rec, "interfering:get_length_scale", droplets.get_length_scale, field_of(sp_sw, np.transpose(data)),
                             method="structure_factor_mean")
            rec.count("meta_cases_preceded_by_a_call_on_an_axis_swapped_grid")
        for method in ("structure_factor_mean",):
            base = ls(rec, spec, data, method)
            if not rec.check(base.ok, "no-exception", f"{method} raised {common.exc_text(base.exc) if base.exc else ''}; {label}"):
                continue
            l0 = float(base.result)
            rec.check(math.isfinite(l0) and l0 > 0, "finite", f"{method} returned {l0}; {label}")
            s = ls(rec, stretched(spec, c), data, method)
            rec.check(s.ok and rel_same(float(s.result), c * l0, 1e-10), "stretch",
                      f"{method}: stretching the grid by {c} gives {s.result if s.ok else s.exc!r}, expected {c * l0}; {label}")
            s = ls(rec, spec, a * data, method)
            rec.check(s.ok and rel_same(float(s.result), l0, 1e-10), "scale",
                      f"{method}: multiplying the field by {a} changes the length from {l0} to {s.result if s.ok else s.exc!r}; {label}")
            s = ls(rec, spec, np.roll(data, case["roll"], axis=axes), method)
            rec.check(s.ok and rel_same(float(s.result), l0, 1e-10), "roll",
                      f"{method}: rolling by {case['roll']} cells changes the length from {l0} to {s.result if s.ok else s.exc!r}; {label}")
        rec.evaluated(nontrivial=nontrivial)
        rec.count(f"meta:dim{dim}|{case['field']['type']}")
        return
    if kind in ("peak", "wave"):
        method = "structure_factor_maximum"
        base = ls(rec, spec, data, method)
        if not rec.check(base.ok, "no-exception", f"{method} raised {common.exc_text(base.exc) if base.exc else ''}; {label}"):
            rec.evaluated(nontrivial=False)
            return
        l0 = float(base.result)
        m = case["field"]["m"]
        b = np.asarray(spec["bounds"], float)
        L = b[:, 1] - b[:, 0]
        ktrue = 2 * math.pi * math.sqrt(sum((mm / L[i]) ** 2 for i, mm in enumerate(m)))
        fin = math.isfinite(l0) and l0 > 0
        if kind == "wave":
            rec.check(fin and abs(2 * math.pi / l0 - ktrue) <= 0.5 * bin_of(spec) * (1 + 1e-9), "plane-wave",
                      f"plane wave m={m}: peak method returned {l0} (wave number {2 * math.pi / l0 if fin else None}), true wave "
                      f"number {ktrue}, half a bin = {0.5 * bin_of(spec)}; {label}")
        else:
            rec.check(fin, "finite", f"peak method returned {l0} for a dominant plane wave m={m}; {label}")
        if fin:
            k0 = 2 * math.pi / l0
            sp2 = stretched(spec, c)
            s = ls(rec, sp2, data, method)
            ok = s.ok and math.isfinite(float(s.result)) and abs(2 * math.pi / float(s.result) - k0 / c) <= bin_of(sp2) * (1 + 1e-9)
            rec.check(ok, "stretch", f"peak method: stretching by {c} gives {s.result if s.ok else s.exc!r}, expected about {c * l0}; {label}")
            s = ls(rec, spec, a * data, method)
            ok = s.ok and math.isfinite(float(s.result)) and abs(2 * math.pi / float(s.result) - k0) <= bin_of(spec) * (1 + 1e-9)
            rec.check(ok, "scale", f"peak method: scaling the field by {a} changes {l0} to {s.result if s.ok else s.exc!r}; {label}")
            s = ls(rec, spec, np.roll(data, case["roll"], axis=axes), method)
            ok = s.ok and math.isfinite(float(s.result)) and abs(2 * math.pi / float(s.result) - k0) <= bin_of(spec) * (1 + 1e-9)
            rec.check(ok, "roll", f"peak method: rolling by {case['roll']} changes {l0} to {s.result if s.ok else s.exc!r}; {label}")
        rec.evaluated(nontrivial=nontrivial or dim > 1)
        rec.count(f"{kind}:dim{dim}")
        return
    if kind == "count":
        thr = case["threshold"]
        kw = {"threshold": float(thr) if thr[0].isdigit() else thr}
        if case.get("minimal_radius_cells"):
            # in units of the (geometric mean) cell size, so that single cells are removed and droplets kept
            kw["minimal_radius"] = float(case["minimal_radius_cells"] * np.prod(h) ** (1 / dim))
        log: list = []
        with monitors.wrap_attr(ia, "locate_droplets", monitors.recording(log, "locate_droplets")):
            base = ls(rec, spec, data, "droplet_detection", **kw)
        if not rec.check(base.ok, "no-exception", f"droplet_detection raised {common.exc_text(base.exc) if base.exc else ''}; {label}"):
            rec.evaluated(nontrivial=False)
            return
        l0 = float(base.result)
        if len(log) != 1 or "result" not in log[0]:
            rec.count("count_wrapper_not_reached")
            rec.evaluated(nontrivial=False)
            return
        n = len(log[0]["result"])
        b = np.asarray(spec["bounds"], float)
        vol = float(np.prod(b[:, 1] - b[:, 0]))
        if case.get("expected_count") is not None:
            ke = case["expected_count"]
            rec.check(n == ke and rel_same(l0, (vol / ke) ** (1 / dim), 1e-12), "count",
                      f"{ke} well separated droplets (offset {case['field']['offset']}, amplitude {case['field']['amp']}) "
                      f"but {n} were counted and the length is {l0} instead of {(vol / ke) ** (1 / dim)}; {label}")
        # "detected" means detected by the documented analysis with the options that were given: the same call made
        # by hand gives the number of droplets the length is built from
        indep = common.monitored(rec, "locate_droplets", droplets.locate_droplets, field_of(spec, data), **kw)
        if indep.ok and len(indep.result) >= 1:
            rec.check(rel_same(l0, (vol / len(indep.result)) ** (1 / dim), 1e-12), "count",
                      f"droplet counting returned {l0}, but locate_droplets(field, {kw}) finds {len(indep.result)} droplets, i.e. "
                      f"(box volume {vol} / {len(indep.result)})^(1/{dim}) = {(vol / len(indep.result)) ** (1 / dim)}; {label}")
        if n >= 1:
            rec.check(rel_same(l0, (vol / n) ** (1 / dim), 1e-12), "count",
                      f"droplet counting returned {l0}, but (box volume {vol} / {n} droplets)^(1/{dim}) = {(vol / n) ** (1 / dim)}; {label}")
            kw_s = dict(kw)
            if "minimal_radius" in kw_s:
                kw_s["minimal_radius"] = kw["minimal_radius"] * c  # a length: it is stretched along with the grid
            s = ls(rec, stretched(spec, c), data, "droplet_detection", **kw_s)
            rec.check(s.ok and rel_same(float(s.result), c * l0, 1e-10), "stretch",
                      f"droplet counting: stretching by {c} gives {s.result if s.ok else s.exc!r}, expected {c * l0}; {label}")
            # a component that winds around the box has no defined position (C02), so the overlap
            # removal - and hence the count - may legitimately depend on the translation
            from . import c02

            tval = {"auto": (float(data.min()) + float(data.max())) / 2, "extrema": (float(data.min()) + float(data.max())) / 2,
                    "mean": float(data.mean())}.get(thr, 0.5)
            comps, _ = c02.expected_components(spec, data > tval)
            tie = False
            if not any(cc["winding"] for cc in comps):
                per_c = geom.cart_periodicity(spec)
                for ca, cb in itertools.combinations(comps, 2):
                    if abs(ca["volume"] - cb["volume"]) <= 1e-9 * max(ca["volume"], cb["volume"]):
                        r_eq = (ca["volume"] / {1: 2.0, 2: math.pi, 3: 4 * math.pi / 3}[dim]) ** (1 / dim)
                        pa_, pb_ = np.asarray(ca["positions"][0], float), np.asarray(cb["positions"][0], float)
                        if min(geom.distance(pa_, pb_, per_c), float(np.linalg.norm(pa_ - pb_))) <= 2 * r_eq * (1 + 1e-9):
                            tie = True
            if any(cc["winding"] for cc in comps):
                rec.count("count_roll_skipped_winding_component")
            elif tie:
                # two overlapping equal-volume spheres from domains of exactly the same volume: which of them
                # survives the overlap removal ("the smaller one is removed") is an exact tie, decided by the label
                # order - which follows the translation
                rec.count("count_roll_skipped_domains_of_equal_volume")
            else:
                rolls = [list(case["roll"])]
                if case["field"]["type"] in ("bars", "speckled", "combs"):  # several translations: label order / cut position changes with each
                    rolls += [[(3 * x) // 2 + 1 if x else 0 for x in case["roll"]], [-(x // 3) - 2 if x else 0 for x in case["roll"]]]
                for rl in rolls:
                    s = ls(rec, spec, np.roll(data, rl, axis=axes), "droplet_detection", **kw)
                    rec.check(s.ok and rel_same(float(s.result), l0, 1e-10), "roll",
                              f"droplet counting: rolling by {rl} changes {l0} to {s.result if s.ok else s.exc!r}; {label}")
            if thr in ("auto", "mean", "extrema"):
                s = ls(rec, spec, a * data + (0.0 if thr == "mean" else 0.0), "droplet_detection", **kw)
                rec.check(s.ok and rel_same(float(s.result), l0, 1e-10), "scale",
                          f"droplet counting ({thr} threshold): scaling the field by {a} changes {l0} to {s.result if s.ok else s.exc!r}; {label}")
        else:
            rec.count("count_cases_without_droplets")
        rec.evaluated(nontrivial=nontrivial or n >= 2)
        rec.count(f"count:dim{dim}|thr={thr}|n={min(n, 5)}")
        return
    raise ValueError(kind)


def sentinels(rec):
    spec = {"family": "cart", "bounds": [[0.0, 32.0]], "shape": [32], "periodic": [True]}
    case = {"kind": "wave", "grid": spec, "stretch": 1.0, "scale": 2.0, "roll": [3], "known": KNOWN_KEY,
            "field": {"type": "wave", "m": [2], "amp": 1.0, "offset": 0.0, "phase": 0.0, "seed": 0, "extra": False}}
    with rec.sentinel(KNOWN_KEY, KNOWN_WHAT):
        with rec.case("wave", case):
            run(case, rec, ignore_known=True)


def run_shard(spec, rec):
    from droplets import image_analysis as ia

    rec.watch(ia.get_length_scale)
    if spec["kind"] == "wave" and spec["start"] == 0:
        sentinels(rec)
    common.run_generated(spec, rec, gen, run, ID)


def replay(v, rec):
    case = v["case"]
    with rec.case(v["kind"], case):
        if case.get("known"):
            with rec.sentinel(case["known"], KNOWN_WHAT):
                run(case, rec, ignore_known=True)
        else:
            run(case, rec)
