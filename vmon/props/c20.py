"""C20 - collections stay aligned and own their droplets under any sequence of edits.

Monitors: ``icontract.invariant`` on ``Emulsion``, ``EmulsionTimeCourse`` and ``DropletTrack``
(member types, alignment of times and members) re-checked after every public method; a
lock-step reference model made of plain python lists of model droplets.  Aliasing is part of
the model: two model slots hold the *same* model droplet exactly when the two real slots
must hold the same object (only after copy=False insertion); after every operation the real
collections are compared with the model slot by slot (class, parameter bytes) and the
identity / memory-sharing structure of all real droplets is compared with the model's.
"""

from __future__ import annotations

import itertools
import math

import numpy as np

from .. import core
from . import common

ID = "C20"
RULE = (
    "cases = operation sequences on (a) emulsions, (b) time courses, (c) tracks/track lists: "
    "complete enumeration of all sequences of length <= 3 [thorough 4] over a fixed alphabet of 14 "
    "emulsion operations (append default / copy=False / wrong layout with force_consistency, "
    "extend, copy(min_radius), slice, +, remove_small, remove_overlapping, get_linked_data + write "
    "through the array, merge(inplace) of members, clear, mutate a caller-owned droplet, mutate a "
    "member) and of length <= 4 [thorough 5] over 8 time-course / 8 track operations; plus random "
    "sequences of length 10..60 with random parameters over spherical/diffuse droplets (1..3-D) and "
    "perturbed 2-D droplets, interleaved with summary queries compared with their definitions and "
    "under member permutation. Non-trivial = sequence containing a mutation probe after an "
    "insertion, or >= 10 operations. Distinct = digest of the operation sequence."
)
ASSUMPTIONS = [
    "remove_overlapping: the model accepts any survivor set satisfying C10's clauses (no tie-break rule) and resynchronises",
    "merge of members: checked against volume/centre conservation (1e-12) and resynchronised (bitwise model equality afterwards)",
    "time-course append(copy=False): whether the stored emulsion aliases the caller's is not constrained; the caller's object is retired",
    "summary queries compared at 1e-12 relative; classes lacking an attribute (3-D perturbed surface_area) are not queried",
]
REQUIRED_MONITORS = {"model:compare": 5000, "invariant:Emulsion": 5000, "invariant:EmulsionTimeCourse": 500,
                     "invariant:DropletTrack": 500, "post:summary": 300, "probe:mutation": 1000}
MIN_NONTRIVIAL = 500

N_EM_OPS, N_TC_OPS, N_TR_OPS = 14, 8, 8


class InvariantBroken(Exception):
    pass


# ------------------------------------------------------------------ invariants (icontract)

_inv = {"rec": None, "installed": False}


def _em_ok(self):
    rec = _inv["rec"]
    if rec is not None:
        rec.hit("invariant:Emulsion")
    from droplets.droplets import SphericalDroplet

    # (no condition on `dtype`: an emulsion being restored by pickle has no such attribute until its first append)
    return all(isinstance(d, SphericalDroplet) for d in self)


def _tc_ok(self):
    rec = _inv["rec"]
    if rec is not None:
        rec.hit("invariant:EmulsionTimeCourse")
    from droplets.emulsions import Emulsion

    return len(self.times) == len(self.emulsions) and all(isinstance(e, Emulsion) for e in self.emulsions)


def _tr_ok(self):
    rec = _inv["rec"]
    if rec is not None:
        rec.hit("invariant:DropletTrack")
    return len(self.times) == len(self.droplets)


def install_invariants(rec):
    import icontract
    from droplets import droplet_tracks, emulsions

    _inv["rec"] = rec
    if not _inv["installed"]:
        icontract.invariant(_em_ok, error=InvariantBroken)(emulsions.Emulsion)
        icontract.invariant(_tc_ok, error=InvariantBroken)(emulsions.EmulsionTimeCourse)
        if not getattr(droplet_tracks.DropletTrack, "_vmon_inv", False):
            icontract.invariant(_tr_ok, error=InvariantBroken)(droplet_tracks.DropletTrack)
            droplet_tracks.DropletTrack._vmon_inv = True
        _inv["installed"] = True


# ------------------------------------------------------------------ model


class MD:
    """Model droplet: class name + flat parameter vector (position, radius, [width], [amps])."""

    __slots__ = ("cls", "dim", "p")

    def __init__(self, cls, dim, p):
        self.cls, self.dim, self.p = cls, dim, np.array(p, dtype=float)

    def copy(self):
        return MD(self.cls, self.dim, self.p.copy())

    @property
    def radius(self):
        return float(self.p[self.dim])

    @radius.setter
    def radius(self, v):
        self.p[self.dim] = v

    @property
    def layout(self):
        return (self.cls, self.dim, len(self.p))


def real_params(d):
    from numpy.lib.recfunctions import structured_to_unstructured

    return np.atleast_1d(structured_to_unstructured(d.data)).astype(float)


def md_of(d):
    return MD(type(d).__name__, d.dim, real_params(d))


def same_params(a, b):
    return a.shape == b.shape and bool(np.all((a == b) | (np.isnan(a) & np.isnan(b))))


def make_real(desc):
    from .c03 import make_droplet

    return make_droplet(desc)


def rand_desc(rng, cls, dim):
    pos = [float(x) for x in rng.uniform(0, 6, dim)]
    d = {"cls": cls, "pos": pos, "radius": float(rng.choice([0.0, 0.3, 0.45, 0.8, 1.5, float(rng.uniform(0.1, 2))])),
         "width": None, "amps": None}
    if cls != "SphericalDroplet":
        wk = rng.random()
        d["width"] = None if wk < 0.3 else (0.0 if wk < 0.45 else float(rng.uniform(0.1, 1.0)))
    if cls == "PerturbedDroplet2D":
        d["amps"] = [float(a) for a in rng.uniform(-0.2, 0.2, 2)]
    return d


class World:
    """Real objects and their model side by side."""

    def __init__(self, rec, label):
        self.rec = rec
        self.label = label
        self.pool = []      # [(real droplet, MD)] caller-owned
        self.ems = []       # [(real Emulsion, [MD], model dtype layout or None)]
        self.log = []       # executed operations (for messages)
        self.probe_after_insert = False
        self.inserted = False
        self.linked = None

    # -- comparison -------------------------------------------------------------
    def compare(self):
        rec = self.rec
        rec.hit("model:compare")
        msg = f"after ops {self.log[-8:]}; {self.label}"
        for k, (em, model, _lay) in enumerate(self.ems):
            if not rec.check(len(em) == len(model), "content",
                             f"emulsion #{k} has {len(em)} droplets, the list model {len(model)}; {msg}"):
                return False
            for i, (d, m) in enumerate(zip(em, model)):
                if not rec.check(type(d).__name__ == m.cls and same_params(real_params(d), m.p), "content",
                                 f"emulsion #{k} slot {i}: real {type(d).__name__}{real_params(d).tolist()} != model "
                                 f"{m.cls}{m.p.tolist()}; {msg}"):
                    return False
        for j, (d, m) in enumerate(self.pool):
            if not rec.check(type(d).__name__ == m.cls and same_params(real_params(d), m.p), "caller-object",
                             f"caller-owned droplet #{j} changed: real {real_params(d).tolist()} != model {m.p.tolist()}; {msg}"):
                return False
        # identity / memory structure
        reals = [(d, m, f"pool{j}") for j, (d, m) in enumerate(self.pool)]
        for k, (em, model, _lay) in enumerate(self.ems):
            reals += [(d, m, f"em{k}[{i}]") for i, (d, m) in enumerate(zip(em, model))]
        for (d1, m1, n1), (d2, m2, n2) in itertools.combinations(reals, 2):
            same_real = d1 is d2 or np.shares_memory(np.asarray(d1.data), np.asarray(d2.data))
            if not rec.check(same_real == (m1 is m2), "ownership",
                             f"{n1} and {n2} {'share' if same_real else 'do not share'} an object/memory but the model says "
                             f"{'they are one droplet' if m1 is m2 else 'they are independent'}; {msg}"):
                return False
        return True

    def probe(self, real, model, value):
        """Mutate one droplet on both sides; aliasing errors show up in `compare`."""
        self.rec.hit("probe:mutation")
        real.radius = value
        model.radius = value
        if self.inserted:
            self.probe_after_insert = True


# ------------------------------------------------------------------ emulsion operations


def em_op(world, op, rng=None, params=None):
    """Apply emulsion operation `op` (0..13) to the active emulsion (index 0)."""
    import droplets
    from droplets.emulsions import Emulsion

    rec = world.rec
    em, model, lay = world.ems[0]
    pool = world.pool
    P = params or {}

    def pick_pool(default):
        return P.get("pool", default) % len(pool)

    def note(s):
        world.log.append(s)

    def set_layout(m):
        nonlocal lay
        if lay is None:
            lay = m.layout
            world.ems[0] = (em, model, lay)

    if op == 0:  # append default (copy)
        j = pick_pool(0)
        d, m = pool[j]
        note(f"append(pool{j})")
        em.append(d)
        model.append(m.copy())
        set_layout(m)
        world.inserted = True
    elif op == 1:  # append copy=False
        j = pick_pool(1)
        d, m = pool[j]
        note(f"append(pool{j}, copy=False)")
        em.append(d, copy=False)
        model.append(m)
        set_layout(m)
        world.inserted = True
    elif op == 2:  # wrong layout with force_consistency
        j = P.get("wrong", len(pool) - 1) % len(pool)
        d, m = pool[j]
        how = P.get("how", len(world.log) % 5)
        if how == 0 or lay is None:
            note(f"append(pool{j}, force_consistency=True)")
            c = common.monitored(rec, "append(force_consistency)", em.append, d, force_consistency=True)
            expect_reject = lay is not None and m.layout != lay
            if expect_reject:
                rec.check(not c.ok and isinstance(c.exc, ValueError), "consistency",
                          f"droplet of layout {m.layout} accepted into an emulsion of layout {lay} although consistency "
                          f"was requested ({c.exc!r}); ops {world.log[-6:]}")
                if c.ok:
                    model.append(m.copy())
            else:
                rec.check(c.ok, "consistency", f"compatible droplet rejected: {c.exc!r}; ops {world.log[-6:]}")
                if c.ok:
                    model.append(m.copy())
                    set_layout(m)
                    world.inserted = True
        else:
            # the same request made with a whole collection as the source: an Emulsion (built without
            # consistency enforcement, so it may be heterogeneous) or a plain list whose first member fits
            fit = [(dd, mm) for dd, mm in pool if mm.layout == lay]
            src = ([fit[0]] if fit else []) + [(d, m)] + ([fit[-1]] if fit else [])
            # (any iterable will do as the source: an emulsion, a list, a generator, an iterator)
            source = (Emulsion([dd for dd, _ in src]) if how == 1 else [dd for dd, _ in src] if how == 2
                      else (dd for dd, _ in src) if how == 3 else iter([dd for dd, _ in src]))
            note(f"extend({ {1: 'Emulsion', 2: 'list', 3: 'generator'}.get(how, 'iterator') }[{[mm.layout for _, mm in src]}], force_consistency=True)")
            n0 = len(em)
            c = common.monitored(rec, "extend(force_consistency)", em.extend, source, force_consistency=True)
            first_bad = next((k for k, (_, mm) in enumerate(src) if mm.layout != lay), None)
            added = list(em)[n0:]
            if first_bad is None:
                rec.check(c.ok and len(added) == len(src), "consistency",
                          f"compatible collection rejected: {c.exc!r}; ops {world.log[-6:]}")
            else:
                rec.check(not c.ok and isinstance(c.exc, ValueError), "consistency",
                          f"collection containing a droplet of layout {src[first_bad][1].layout} was accepted into an emulsion "
                          f"of layout {lay} although consistency was requested ({c.exc!r}); ops {world.log[-6:]}")
                rec.check(len(added) <= first_bad, "consistency",
                          f"{len(added)} droplets were added although member {first_bad} of the source has the wrong layout; "
                          f"ops {world.log[-6:]}")
            for k in range(len(added)):  # resynchronise the model with what was accepted (a prefix of the source)
                model.append(src[min(k, len(src) - 1)][1].copy())
            if added:
                world.inserted = True
    elif op == 3:  # extend
        js = P.get("many", [0, 2])
        note(f"extend(pool{js})")
        em.extend([pool[j % len(pool)][0] for j in js])
        for j in js:
            model.append(pool[j % len(pool)][1].copy())
            set_layout(pool[j % len(pool)][1])
        world.inserted = True
    elif op == 4:  # copy(min_radius)
        r = P.get("r", 0.5)
        note(f"copy({r})")
        c = em.copy(min_radius=r)
        rec.check(type(c) is Emulsion, "typed", f"copy() returned {type(c).__name__}")
        world.ems.append((c, [m.copy() for m in model if m.radius > r], lay))
    elif op == 5:  # slice
        sl = P.get("slice", (1, None, None))
        note(f"slice{sl}")
        c = em[slice(*sl)]
        rec.check(type(c) is Emulsion, "typed", f"slicing returned {type(c).__name__}")
        world.ems.append((c, [m.copy() for m in model[slice(*sl)]], lay))
    elif op == 6:  # +
        k = P.get("other", 0) % len(world.ems)
        note(f"em0 + em{k}")
        other, omodel, _ = world.ems[k]
        c = em + other
        rec.check(type(c) is Emulsion, "typed", f"+ returned {type(c).__name__}")
        world.ems.append((c, [m.copy() for m in model] + [m.copy() for m in omodel], lay))
    elif op == 7:  # remove_small
        r = P.get("r", 0.5)
        note(f"remove_small({r})")
        em.remove_small(r)
        model[:] = [m for m in model if m.radius > r]
    elif op == 8:  # remove_overlapping
        dmin = P.get("dmin", 0.0)
        if len({m.dim for m in model}) > 1 or len({id(m) for m in model}) < len(model):
            note("remove_overlapping skipped (mixed dimensions or one object in several slots)")
        else:
            note(f"remove_overlapping({dmin})")
            before = list(em)
            c = common.monitored(rec, "remove_overlapping", em.remove_overlapping, dmin)
            if rec.check(c.ok, "no-exception", f"remove_overlapping raised {common.exc_text(c.exc) if c.exc else ''}; ops {world.log[-6:]}"):
                ids = [id(d) for d in before]
                idx = [ids.index(id(d)) if id(d) in ids else None for d in em]
                ok = None not in idx and idx == sorted(idx) and len(set(idx)) == len(idx)
                rec.check(ok, "content", f"remove_overlapping returned droplets that are not the original members in order; ops {world.log[-6:]}")
                if ok:
                    surv = set(idx)
                    info = [(m.p[: m.dim], m.radius) for m in model]
                    for i, j in itertools.combinations(sorted(surv), 2):
                        sd = float(np.linalg.norm(info[i][0] - info[j][0])) - info[i][1] - info[j][1]
                        rec.check(sd >= dmin - 1e-9, "content", f"overlapping droplets {i},{j} both survive (surface distance {sd})")
                    for i in range(len(model)):
                        if i not in surv:
                            why = any(j != i and info[j][1] >= info[i][1] and
                                      float(np.linalg.norm(info[i][0] - info[j][0])) - info[i][1] - info[j][1] < dmin + 1e-9
                                      for j in range(len(model)))
                            rec.check(why, "content", f"droplet {i} removed without a droplet at least as large within d_min")
                    model[:] = [model[i] for i in idx]
    elif op == 9:  # linked data + write through
        homog = len({m.layout for m in model}) == 1
        if not model or not homog or len({id(m) for m in model}) < len(model):
            note("get_linked_data skipped")
        else:
            i = P.get("i", 0) % len(model)
            v = P.get("v", 0.25)
            note(f"get_linked_data()[{i}].radius = {v}")
            c = common.monitored(rec, "get_linked_data", em.get_linked_data)
            if rec.check(c.ok, "no-exception", f"get_linked_data raised {common.exc_text(c.exc) if c.exc else ''}; ops {world.log[-6:]}"):
                arr = c.result
                rec.check(len(arr) == len(model), "content", f"linked array has {len(arr)} rows for {len(model)} droplets")
                arr["radius"][i] = v
                model[i].radius = v
                rec.hit("probe:mutation")
                # remembered: in-place edits of members must reach it.  The member objects themselves are kept (not
                # their id()s: the id of a discarded droplet can be handed to a new one, which made this clause fire
                # once in a blue moon on the unchanged tree)
                world.linked = (em, arr, list(em))
    elif op == 10:  # merge members in place
        ok = len(model) >= 2
        i, j = (P.get("i", 0) % max(1, len(model)), P.get("j", 1) % max(1, len(model)))
        ok = ok and i != j and model[i] is not model[j] and model[i].layout == model[j].layout and model[i].cls in ("SphericalDroplet", "DiffuseDroplet")
        ok = ok and model[i].radius + model[j].radius > 0
        if not ok:
            note("merge skipped")
        else:
            note(f"em0[{i}].merge(em0[{j}], inplace=True)")
            c = common.monitored(rec, "merge", em[i].merge, em[j], inplace=True)
            if rec.check(c.ok, "no-exception", f"merge(inplace) of members raised {common.exc_text(c.exc) if c.exc else ''}; ops {world.log[-6:]}"):
                mi, mj = model[i], model[j]
                dim = mi.dim
                vol = lambda r: {1: 2 * r, 2: math.pi * r * r, 3: 4 * math.pi / 3 * r ** 3}[dim]  # noqa: E731
                V = vol(mi.radius) + vol(mj.radius)
                com = (vol(mi.radius) * mi.p[:dim] + vol(mj.radius) * mj.p[:dim]) / V
                got = real_params(em[i])
                scale = max(float(np.abs(mi.p[:dim]).max()), float(np.abs(mj.p[:dim]).max()), 1e-300)
                rec.check(abs(vol(float(got[dim])) - V) <= 1e-12 * V and bool(np.all(np.abs(got[:dim] - com) <= 1e-12 * scale)),
                          "content", f"in-place merge of members: got {got.tolist()}, expected volume {V} at {com.tolist()}")
                mi.p[:] = got  # resynchronise (bitwise afterwards)
                lk = getattr(world, "linked", None)
                if lk is not None and lk[0] is em and i < len(lk[2]) and lk[2][i] is em[i] and len(lk[1]) == len(em):
                    # the member was linked into one array ("if entries in this array are modified, it will be reflected
                    # in the droplets"): that link has to survive an in-place merge of the member
                    v2 = float(got[dim]) * 0.5 + 0.125
                    lk[1]["radius"][i] = v2
                    rec.check(em[i].radius == v2, "ownership",
                              f"after get_linked_data() and an in-place merge of member {i}, writing to the linked array no longer "
                              f"reaches the member (radius {em[i].radius} instead of {v2}); ops {world.log[-6:]}")
                    if em[i].radius == v2:
                        mi.radius = v2
                    rec.hit("probe:mutation")
    elif op == 11:  # clear
        note("clear()")
        em.clear()
        model.clear()
    elif op == 12:  # mutate a caller-owned droplet
        j = pick_pool(1)
        d, m = pool[j]
        v = P.get("v", m.radius + 1.0)
        note(f"pool{j}.radius = {v}")
        world.probe(d, m, v)
    elif op == 13:  # mutate a member
        if not model:
            note("mutate member skipped")
        else:
            i = P.get("i", 0) % len(model)
            v = P.get("v", 0.7)
            note(f"em0[{i}].radius = {v}")
            world.probe(em[i], model[i], v)
    else:
        raise ValueError(op)


def summaries(world, rec):
    """Summary queries of every emulsion against their definitions over the model."""
    import droplets

    for k, (em, model, _lay) in enumerate(world.ems):
        rec.hit("post:summary")
        label = f"emulsion #{k} = {[(m.cls, m.p.tolist()) for m in model][:4]}"
        stats = common.monitored(rec, "get_size_statistics", em.get_size_statistics)
        vols = [_vol(m) for m in model]
        if rec.check(stats.ok, "no-exception", f"get_size_statistics raised {stats.exc!r}; {label}"):
            s = stats.result
            radii = [m.radius for m in model]
            ok = s["count"] == len(model)
            if model and all(v is not None for v in vols):
                ok = ok and _close(s["radius_mean"], np.mean(radii)) and _close(s["radius_std"], np.std(radii))
                ok = ok and _close(s["volume_mean"], np.mean(vols)) and _close(s["volume_std"], np.std(vols))
            elif not model:
                ok = ok and all(math.isnan(s[x]) for x in ("radius_mean", "radius_std", "volume_mean", "volume_std"))
            rec.check(ok, "summary", f"size statistics {s} do not match the members; {label}")
        if all(v is not None for v in vols):
            tv = common.monitored(rec, "total_droplet_volume", lambda: em.total_droplet_volume)
            rec.check(tv.ok and _close(float(tv.result), float(sum(vols))), "summary",
                      f"total_droplet_volume {tv.result if tv.ok else tv.exc!r} != {sum(vols)}; {label}")
        # area-weighted interface width
        areas = [(_width(m), _area(m)) for m in model]
        if all(a is not None for _, a in areas):
            num = sum(w * a for w, a in areas if w is not None)
            den = sum(a for w, a in areas if w is not None)
            exp = None if den == 0 else num / den
            iw = common.monitored(rec, "interface_width", lambda: em.interface_width)
            if rec.check(iw.ok, "no-exception", f"interface_width raised {iw.exc!r}; {label}"):
                ok = (iw.result is None and exp is None) or (iw.result is not None and exp is not None and _close(iw.result, exp))
                rec.check(ok, "summary", f"interface_width {iw.result} != area-weighted mean {exp}; {label}")
        if model and len({m.dim for m in model}) == 1:
            bb = common.monitored(rec, "bbox", lambda: np.asarray(em.bbox.bounds, float))
            if rec.check(bb.ok, "no-exception", f"bbox raised {bb.exc!r}; {label}"):
                lo = np.min([m.p[: m.dim] - m.radius for m in model], axis=0)
                hi = np.max([m.p[: m.dim] + m.radius for m in model], axis=0)
                rec.check(bool(np.allclose(bb.result, np.stack([lo, hi], axis=1), rtol=1e-12, atol=1e-12)), "summary",
                          f"bbox {bb.result.tolist()} != {np.stack([lo, hi], axis=1).tolist()}; {label}")
        # permutation of members does not change the summaries
        if len(model) >= 2 and all(v is not None for v in vols):
            perm = droplets.Emulsion(list(em)[::-1], copy=False)
            s2 = perm.get_size_statistics()
            s1 = em.get_size_statistics()
            rec.check(all(_close(s1[x], s2[x]) for x in s1), "summary", f"size statistics depend on member order: {s1} vs {s2}; {label}")


def _close(a, b):
    a, b = float(a), float(b)
    return (math.isnan(a) and math.isnan(b)) or abs(a - b) <= 1e-12 * max(1.0, abs(a), abs(b))


def _vol(m):
    r, dim = m.radius, m.dim
    if m.cls == "PerturbedDroplet2D":
        amps = m.p[dim + 2:]
        return math.pi * r * r * (1 + float(np.sum(amps ** 2)) / 2)
    if m.cls.startswith("Perturbed"):
        return None
    return {1: 2 * r, 2: math.pi * r * r, 3: 4 * math.pi / 3 * r ** 3}[dim]


def _area(m):
    r, dim = m.radius, m.dim
    if m.cls.startswith("Perturbed"):
        return None
    return {1: 2.0, 2: 2 * math.pi * r, 3: 4 * math.pi * r * r}[dim]


def _width(m):
    if m.cls == "SphericalDroplet":
        return None
    w = float(m.p[m.dim + 1])
    return None if math.isnan(w) else w


# ------------------------------------------------------------------ sequences on emulsions


def fixed_pool():
    descs = [
        {"cls": "SphericalDroplet", "pos": [1.0, 1.0], "radius": 0.8, "width": None, "amps": None},
        {"cls": "SphericalDroplet", "pos": [1.9, 1.0], "radius": 0.45, "width": None, "amps": None},
        {"cls": "SphericalDroplet", "pos": [4.0, 4.0], "radius": 0.3, "width": None, "amps": None},
        {"cls": "DiffuseDroplet", "pos": [2.0, 3.0], "radius": 0.6, "width": 0.2, "amps": None},
        {"cls": "SphericalDroplet", "pos": [1.0, 2.0, 3.0], "radius": 0.5, "width": None, "amps": None},
    ]
    return descs


def new_world(rec, descs, label):
    import droplets

    w = World(rec, label)
    for d in descs:
        r = common.via(make_real(d), d.get("route"))  # caller-owned droplets of any provenance (pickled, copied, ...)
        w.pool.append((r, md_of(r)))
    w.ems.append((droplets.Emulsion(), [], None))
    return w


def run_em_sequence(seq, rec, *, descs=None, params=None, label=""):
    install_invariants(rec)
    w = new_world(rec, descs or fixed_pool(), label or f"sequence {seq}")
    ok = True
    for n, op in enumerate(seq):
        try:
            em_op(w, op, params=(params[n] if params else None))
        except InvariantBroken as e:
            rec.check(False, "invariant", f"class invariant broken: {e}; ops {w.log[-6:]}")
            ok = False
            break
        except Exception as e:  # noqa: BLE001
            rec.check(False, "no-exception", f"operation raised {common.exc_text(e)}; ops {w.log[-6:]}; {w.label}")
            ok = False
            break
        if not w.compare():
            ok = False
            break
    if ok:
        summaries(w, rec)
    return w


# ------------------------------------------------------------------ time courses and tracks


def run_tc_sequence(seq, rec, rng, label=""):
    """Operations on EmulsionTimeCourse against a model [(time, [MD])]."""
    import droplets
    from droplets.emulsions import Emulsion, EmulsionTimeCourse

    install_invariants(rec)
    tc = EmulsionTimeCourse()
    model = []  # list of [time, list[MD]]
    others = []  # derived (tc, model) pairs that must stay independent
    log = []

    def mk_em(k):
        ds = [make_real(rand_desc(rng, "SphericalDroplet", 2)) for _ in range(k)]
        return Emulsion(ds, copy=False), [md_of(d) for d in ds]

    def compare(tag):
        rec.hit("model:compare")
        for name, (t_real, t_model) in [("tc", (tc, model))] + [(f"derived{i}", o) for i, o in enumerate(others)]:
            ok = rec.check(len(t_real.times) == len(t_real.emulsions) == len(t_model), "aligned",
                           f"{name}: {len(t_real.times)} times, {len(t_real.emulsions)} emulsions, model {len(t_model)}; ops {log[-6:]}; {label}")
            if not ok:
                return False
            for i, ((tm, mm), tr, er) in enumerate(zip(t_model, t_real.times, t_real.emulsions)):
                ok = float(tr) == float(tm) and len(er) == len(mm) and all(
                    type(d).__name__ == m.cls and same_params(real_params(d), m.p) for d, m in zip(er, mm))
                if not rec.check(ok, "content", f"{name} frame {i}: time {tr} / {len(er)} droplets vs model time {tm} / "
                                 f"{[m.p.tolist() for m in mm]}; ops {log[-6:]}; {label}"):
                    return False
        return True

    # times and emulsions stay paired from the start: a constructor call with lists that cannot be paired (more
    # emulsions than times, more times than emulsions, times without emulsions) has no list model - it must be refused,
    # not answered with a silently shortened time course
    n_e, n_t = [(3, 2), (1, 3), (2, 0), (0, 1), (4, 3)][int(rng.integers(5))]
    bad = common.monitored(rec, "EmulsionTimeCourse(unpairable)", lambda: EmulsionTimeCourse(
        [mk_em(1)[0] for _ in range(n_e)], times=[float(k) for k in range(n_t)]))
    rec.check(not bad.ok, "aligned",
              f"EmulsionTimeCourse({n_e} emulsions, times of length {n_t}) was accepted and holds "
              f"{len(bad.result.emulsions) if bad.ok else '?'} emulsions / {len(bad.result.times) if bad.ok else '?'} times; {label}")
    for op in seq:
        if op == 0:  # append default time
            em, mm = mk_em(int(rng.integers(0, 3)))
            log.append("append(em)")
            tc.append(em)
            t = 0 if not model else model[-1][0] + 1
            model.append([t, [m.copy() for m in mm]])
            # caller keeps `em`: mutate it and expect no leak
            if len(em):
                em[0].radius = em[0].radius + 1.0
                rec.hit("probe:mutation")
        elif op == 1:  # append with explicit time (also exactly 0)
            em, mm = mk_em(int(rng.integers(0, 3)))
            t = float(rng.choice([0.0, -1.5, 2.25, 7.0])) if not model else float(model[-1][0]) + float(rng.choice([0.5, 1.0, 3.0]))
            if model and rng.random() < 0.3:
                t = 0.0
            if rng.random() < 0.25:
                # a call that is refused (a bare droplet or a list holding None is not an emulsion) and caught by the
                # caller leaves the time course as it was
                bad = [None] if rng.random() < 0.5 else make_real(rand_desc(rng, "SphericalDroplet", 2))
                log.append(f"append({'[None]' if isinstance(bad, list) else 'a bare droplet'}, time={t}) -> refused")
                cb = common.monitored(rec, "append(invalid)", tc.append, bad, time=t)
                if cb.ok:
                    rec.count("invalid_append_accepted")
                    # accepted after all (a bare droplet may be taken for a one-droplet emulsion): follow it in the model
                    model.append([t, [md_of(d_) for d_ in tc.emulsions[-1]]])
                    t = t + 0.25
                else:
                    rec.hit("probe:refused-append")
            log.append(f"append(em, time={t})")
            tc.append(em, time=t)
            model.append([t, [m.copy() for m in mm]])
        elif op == 2:  # append copy=False (caller's emulsion retired)
            em, mm = mk_em(int(rng.integers(1, 3)))
            log.append("append(em, copy=False)")
            tc.append(em, copy=False)
            t = 0 if not model else model[-1][0] + 1
            model.append([t, [m.copy() for m in mm]])
        elif op == 3:  # clear
            log.append("clear()")
            tc.clear()
            model.clear()
        elif op == 4:  # slice -> independent
            log.append("tc[1:]")
            s = tc[1:]
            rec.check(type(s) is EmulsionTimeCourse, "typed", f"slice returned {type(s).__name__}")
            others.append((s, [[t, [m.copy() for m in mm]] for t, mm in model[1:]]))
        elif op == 5:  # construct from self -> independent
            log.append("EmulsionTimeCourse(tc)")
            s = EmulsionTimeCourse(tc)
            others.append((s, [[t, [m.copy() for m in mm]] for t, mm in model]))
        elif op == 6:  # mutate a stored droplet through indexing (live reference)
            idx = [i for i, (_, mm) in enumerate(model) if mm]
            if idx:
                i = int(rng.choice(idx))
                log.append(f"tc[{i}][0].radius = 0.9")
                tc[i][0].radius = 0.9
                model[i][1][0].radius = 0.9
                rec.hit("probe:mutation")
        elif op == 7:  # nearest-time lookup
            if model:
                q = float(rng.uniform(min(t for t, _ in model) - 1, max(t for t, _ in model) + 1))
                log.append(f"get_emulsion({q})")
                c = common.monitored(rec, "get_emulsion", tc.get_emulsion, q)
                dists = [abs(float(t) - q) for t, _ in model]
                best = min(dists)
                if rec.check(c.ok, "no-exception", f"get_emulsion raised {c.exc!r}") and sum(1 for d in dists if d <= best + 1e-12) == 1:
                    i = dists.index(best)
                    rec.check(c.result is tc.emulsions[i], "summary", f"get_emulsion({q}) did not return the frame nearest in time (times {[t for t, _ in model]}); {label}")
                    rec.hit("post:summary")
        if not compare(op):
            return
    # all derived collections are independent: no droplet object shared
    seen = {}
    for name, t_real in [("tc", tc)] + [(f"derived{i}", o[0]) for i, o in enumerate(others)]:
        for e in t_real.emulsions:
            for d in e:
                rec.check(id(d) not in seen, "ownership", f"{name} shares a droplet object with {seen.get(id(d))}; ops {log[-6:]}")
                seen[id(d)] = name


def run_tr_sequence(seq, rec, rng, label=""):
    """Operations on DropletTrack / DropletTrackList against a model."""
    import droplets
    from droplets.droplet_tracks import DropletTrack, DropletTrackList

    install_invariants(rec)
    tr = DropletTrack()
    model = []  # [time, MD]
    others = []
    log = []
    dim = 2

    def compare():
        rec.hit("model:compare")
        for name, (t_real, t_model) in [("track", (tr, model))] + [(f"derived{i}", o) for i, o in enumerate(others)]:
            ok = len(t_real.times) == len(t_real.droplets) == len(t_model)
            if not rec.check(ok, "aligned", f"{name}: {len(t_real.times)} times, {len(t_real.droplets)} droplets, model {len(t_model)}; ops {log[-6:]}; {label}"):
                return False
            for i, ((tm, m), t, d) in enumerate(zip(t_model, t_real.times, t_real.droplets)):
                if not rec.check(float(t) == float(tm) and type(d).__name__ == m.cls and same_params(real_params(d), m.p), "content",
                                 f"{name}[{i}]: time {t}, {real_params(d).tolist()} vs model time {tm}, {m.p.tolist()}; ops {log[-6:]}; {label}"):
                    return False
        return True

    for op in seq:
        if op == 0:  # append, default time; caller mutates afterwards
            d = make_real(rand_desc(rng, "SphericalDroplet", dim))
            log.append("append(d)")
            tr.append(d)
            t = 0 if not model else model[-1][0] + 1
            model.append([t, md_of(d)])
            d.radius = d.radius + 1.0
            rec.hit("probe:mutation")
        elif op == 1:  # explicit time, possibly exactly 0
            d = make_real(rand_desc(rng, "SphericalDroplet", dim))
            t = float(rng.choice([0.0, -2.0, 1.5])) if not model else float(model[-1][0]) + float(rng.choice([0.5, 2.0]))
            if model and rng.random() < 0.3:
                t = 0.0
            log.append(f"append(d, time={t})")
            tr.append(d, time=t)
            model.append([t, md_of(d)])
        elif op == 2:  # wrong dimension is rejected
            d = make_real(rand_desc(rng, "SphericalDroplet", 3))
            log.append("append(3-D droplet)")
            c = common.monitored(rec, "append(wrong dim)", tr.append, d)
            if model and model[-1][1].dim == 3:
                if rec.check(c.ok, "consistency", f"a 3-D droplet was rejected by a 3-D track: {c.exc!r}; ops {log[-6:]}"):
                    model.append([model[-1][0] + 1, md_of(d)])
            elif model:
                rec.check(not c.ok and isinstance(c.exc, ValueError), "consistency",
                          f"a 3-D droplet was accepted by a 2-D track ({c.exc!r}); ops {log[-6:]}")
                if c.ok:
                    model.append([model[-1][0] + 1, md_of(d)])
            else:
                if c.ok:
                    model.append([0, md_of(d)])
                    dim = 3
        elif op == 3:  # slice -> independent
            log.append("track[1:]")
            s = tr[1:]
            rec.check(type(s) is DropletTrack, "typed", f"slice returned {type(s).__name__}")
            others.append((s, [[t, m.copy()] for t, m in model[1:]]))
        elif op == 4:  # construct from self
            log.append("DropletTrack(track)")
            s = DropletTrack(tr)
            others.append((s, [[t, m.copy()] for t, m in model]))
            if rng.random() < 0.4:
                # carry on with a track that went through pickle (as when it is sent to/from a worker process
                # or stored): it must behave like the original under all later operations
                import pickle

                log.append("track = pickle.loads(pickle.dumps(track))")
                tr = pickle.loads(pickle.dumps(tr))
                rec.count("tracks_continued_after_pickle_round_trip")
        elif op == 5:  # mutate a stored droplet
            if model:
                i = int(rng.integers(len(model)))
                log.append(f"track[{i}].radius = 0.9")
                tr[i].radius = 0.9
                model[i][1].radius = 0.9
                rec.hit("probe:mutation")
        elif op == 6:  # summaries
            if model and len({m.dim for _, m in model}) == 1:
                rec.hit("post:summary")
                traj = common.monitored(rec, "get_trajectory", tr.get_trajectory)
                exp = np.array([m.p[: m.dim] for _, m in model])
                rec.check(traj.ok and np.array_equal(np.asarray(traj.result), exp), "summary", f"trajectory {traj.result if traj.ok else traj.exc!r} != {exp.tolist()}")
                rad = common.monitored(rec, "get_radii", tr.get_radii)
                rec.check(rad.ok and np.array_equal(np.asarray(rad.result), np.array([m.radius for _, m in model])), "summary", "radii differ")
                rec.check(tr.duration == model[-1][0] - model[0][0] and tr.start == model[0][0] and tr.end == model[-1][0], "summary",
                          f"duration/start/end {tr.duration}/{tr.start}/{tr.end} vs times {[t for t, _ in model]}")
                t0 = model[int(rng.integers(len(model)))][0]
                first = [m for t, m in model if t == t0][0]
                gp = common.monitored(rec, "get_position", tr.get_position, t0)
                rec.check(gp.ok and np.array_equal(np.asarray(gp.result), first.p[: first.dim]), "summary", f"get_position({t0}) wrong: {gp.result if gp.ok else gp.exc!r}")
        elif op == 7:  # track list: remove_short_tracks keeps only longer ones
            rec.hit("post:summary")
            tl = DropletTrackList([tr] + [o[0] for o in others])
            durs = [t.duration for t in tl]
            md = float(rng.choice([0.0, 0.5, 1.0, 2.0]))
            log.append(f"remove_short_tracks({md})")
            keep = [t for t in tl if t.duration > md]
            tl.remove_short_tracks(md)
            rec.check(len(tl) == len(keep) and all(a is b for a, b in zip(tl, keep)), "summary",
                      f"remove_short_tracks({md}) kept {len(tl)} of durations {durs}")
            rec.check(type(tl[0:1]) is DropletTrackList, "typed", "slicing a track list does not give a track list")
        if not compare():
            return
    seen = {}
    for name, t_real in [("track", tr)] + [(f"derived{i}", o[0]) for i, o in enumerate(others)]:
        for d in t_real.droplets:
            rec.check(id(d) not in seen, "ownership", f"{name} shares a droplet object with {seen.get(id(d))}; ops {log[-6:]}")
            seen[id(d)] = name


# ------------------------------------------------------------------ planning / running


def plan(tier, seed):
    L_em = 3 if tier == "quick" else 4
    L_tc = 4 if tier == "quick" else 5
    out = []
    total = sum(N_EM_OPS ** k for k in range(1, L_em + 1))
    chunk = 400 if tier == "quick" else 2500
    for start in range(0, total, chunk):
        out.append({"name": f"ex-emulsion#{start}", "kind": "ex-em", "L": L_em, "start": start, "n": min(chunk, total - start),
                    "total": total, "seed": seed, "tier": tier})
    for which, nops in (("tc", N_TC_OPS), ("tr", N_TR_OPS)):
        total = sum(nops ** k for k in range(1, L_tc + 1))
        chunk2 = 1200 if tier == "quick" else 6000
        for start in range(0, total, chunk2):
            out.append({"name": f"ex-{which}#{start}", "kind": f"ex-{which}", "L": L_tc, "start": start,
                        "n": min(chunk2, total - start), "total": total, "seed": seed, "tier": tier})
    if tier == "quick":
        kinds = {"rand-em": 1500, "rand-tc": 500, "rand-tr": 500}
        per = 250
    else:
        kinds = {"rand-em": 60000, "rand-tc": 20000, "rand-tr": 20000}
        per = 4000
    _out = out + common.shards(kinds, per_shard=per, tier=tier, seed=seed)
    if tier == "thorough":
        _out = _out + [common.suite_shard(ID, tier, seed)]  # the repository's own tests under this monitor
    return _out


def nth_sequence(n, nops, L):
    """The n-th sequence in the enumeration of all sequences of length 1..L over nops symbols."""
    for k in range(1, L + 1):
        c = nops ** k
        if n < c:
            seq = []
            for _ in range(k):
                seq.append(n % nops)
                n //= nops
            return seq[::-1]
        n -= c
    raise IndexError


def run_exhaustive(spec, rec):
    kind = spec["kind"]
    nops = {"ex-em": N_EM_OPS, "ex-tc": N_TC_OPS, "ex-tr": N_TR_OPS}[kind]
    name = f"sequences:{kind}:L<={spec['L']}"
    rec.space(name, spec["total"], 0)
    done = 0
    for n in range(spec["start"], spec["start"] + spec["n"]):
        seq = nth_sequence(n, nops, spec["L"])
        case = {"kind": kind, "seq": seq, "seed": spec["seed"]}
        with rec.case(kind, case):
            try:
                run(case, rec)
            except Exception as e:  # noqa: BLE001
                rec.harness_error(f"{kind} {seq}", e)
        done += 1
    rec.space(name, spec["total"], done)


def gen(rng, kind, tier):
    L = int(rng.integers(10, 61))
    if kind == "rand-em":
        dim = int(rng.integers(1, 4))
        classes = ["SphericalDroplet", "DiffuseDroplet"] + (["PerturbedDroplet2D"] if dim == 2 else [])
        main = str(rng.choice(classes))
        descs = [rand_desc(rng, main, dim) for _ in range(4)]
        if rng.random() < 0.3:
            descs[2] = rand_desc(rng, str(rng.choice(classes)), dim)
        if main == "PerturbedDroplet2D" and rng.random() < 0.5:
            descs[2] = rand_desc(rng, main, dim)
            descs[2]["amps"] = [float(a) for a in rng.uniform(-0.2, 0.2, int(rng.choice([1, 3, 4])))]  # same class, other mode count
        for dd in descs:
            dd["route"] = common.pick_route(rng, 0.6)
        descs.append(rand_desc(rng, "SphericalDroplet", dim % 3 + 1))  # wrong dimension
        seq, params = [], []
        for _ in range(L):
            op = int(rng.choice(N_EM_OPS, p=_EM_WEIGHTS))
            seq.append(op)
            params.append({"pool": int(rng.integers(0, 4)), "wrong": int(rng.choice([4, 2])), "how": int(rng.integers(0, 5)), "many": [int(x) for x in rng.integers(0, 4, int(rng.integers(0, 4)))],
                           "r": float(rng.choice([-1.0, 0.0, 0.3, 0.5, 1.0])), "slice": [int(rng.integers(0, 3)), None if rng.random() < 0.5 else int(rng.integers(1, 6)), None if rng.random() < 0.7 else 2],
                           "other": int(rng.integers(0, 5)), "dmin": float(rng.choice([0.0, 0.0, -0.3, 0.5])),
                           "i": int(rng.integers(0, 8)), "j": int(rng.integers(0, 8)), "v": float(rng.choice([0.0, 0.25, 0.7, 1.9]))})
        return {"seq": seq, "params": params, "descs": descs}
    return {"seq": [int(x) for x in rng.integers(0, N_TC_OPS if kind == "rand-tc" else N_TR_OPS, L)], "seed": int(rng.integers(1 << 30))}


_EM_WEIGHTS = np.array([3, 2, 1, 2, 1, 1, 0.6, 1, 1, 1.5, 1.5, 0.3, 2, 2], float)
_EM_WEIGHTS /= _EM_WEIGHTS.sum()


def run(case, rec):
    kind = case["kind"]
    if kind in ("ex-em", "rand-em"):
        params = case.get("params")
        if params:
            for p in params:
                p["slice"] = tuple(p["slice"])
        w = run_em_sequence(case["seq"], rec, descs=case.get("descs"), params=params, label=f"{kind} seq={case['seq']}")
        rec.evaluated(nontrivial=w.probe_after_insert or len(case["seq"]) >= 10, key={"k": kind, "s": case["seq"], "d": case.get("descs")})
        for op in set(case["seq"]):
            rec.count(f"em_op:{op}")
    elif kind in ("ex-tc", "rand-tc"):
        rng = core.sub_rng(case.get("seed", 0), "tc", *case["seq"])
        try:
            run_tc_sequence(case["seq"], rec, rng, label=f"{kind} seq={case['seq']}")
        except InvariantBroken as e:
            rec.check(False, "invariant", f"class invariant broken: {str(e)[:300]}; {kind} seq={case['seq']}")
        rec.evaluated(nontrivial=len(case["seq"]) >= 3)
    else:
        rng = core.sub_rng(case.get("seed", 0), "tr", *case["seq"])
        try:
            run_tr_sequence(case["seq"], rec, rng, label=f"{kind} seq={case['seq']}")
        except InvariantBroken as e:
            rec.check(False, "invariant", f"class invariant broken: {str(e)[:300]}; {kind} seq={case['seq']}")
        rec.evaluated(nontrivial=len(case["seq"]) >= 3)


def sentinels(rec):
    # D16: get_linked_data() then merge(inplace=True) in 2-D (records, not voids)
    case = {"kind": "ex-em", "seq": [0, 3, 9, 10, 13]}
    with rec.case("ex-em", case):
        run(case, rec)


def run_shard(spec, rec):
    if spec["kind"] == "suite":
        common.run_suite(ID, rec)
        return
    from droplets import droplet_tracks, emulsions

    install_invariants(rec)
    rec.watch(emulsions.Emulsion.append, emulsions.Emulsion.copy, emulsions.Emulsion.get_linked_data,
              emulsions.EmulsionTimeCourse.append, emulsions.EmulsionTimeCourse.__getitem__,
              droplet_tracks.DropletTrack.append, droplet_tracks.DropletTrack.__getitem__)
    if spec["kind"].startswith("ex-"):
        if spec["kind"] == "ex-em" and spec["start"] == 0:
            sentinels(rec)
        run_exhaustive(spec, rec)
    else:
        common.run_generated(spec, rec, gen, run, ID)


def replay(v, rec):
    install_invariants(rec)
    with rec.case(v["kind"], v["case"]):
        run(v["case"], rec)
