"""C06 - tracking neither loses, duplicates nor alters droplets.

Monitor: wrapper around ``DropletTrackList.from_emulsion_time_course`` recording the input
history (unique droplets) before the call and the tracks after; ``icontract.invariant`` on
``DropletTrack`` (times and droplets aligned).  Offline checker: conservation,
exactly-once, time stamps, and - for overlap-free frames - one-per-frame, gap-freeness,
ordering; input bytes unchanged.
"""

from __future__ import annotations

import itertools

from .. import core
from . import common, tracking

ID = "C06"
PROP_FOR_RNG = "track"
RULE = (
    "cases = (history, method, cut-off, grid): complete enumeration of occupancy histories on a "
    "1-D ring of 4 sites with 3 frames and on 2x2 / 2x3 lattices with 2 frames [thorough: ring of "
    "5 sites x 3 frames, ring of 4 x 4 frames], radii sampled from {0.3,0.45,0.8} (0.8 makes "
    "neighbours overlap), positions jittered by <0.04, each under {overlap, distance x cut-off "
    "0.5/1.5/none/-1} x {no grid, periodic grid} and three time axes (one passing through 0); "
    "plus random histories (d=1..3, 1..8 frames, births, deaths, empty frames, splitting, member "
    "reordering, wrap-around, negative/non-uniform times; members spherical, diffuse (width None/0/x) or perturbed 2-D/3-D), histories with overlapping droplets "
    "(partition clause only), 8 % of the random histories with a repeated or restarting time stamp (partition clause "
    "only) and adversarial drifts across periodic boundaries. Non-trivial = "
    "the history contains an appearance, a disappearance or an empty frame. Distinct = digest of "
    "the whole case."
)
ASSUMPTIONS = [
    "droplets are identified by (frame time, parameter bytes); generators make them unique per frame",
    "histories with a pair distance within 1e-9 of a radius sum or the cut-off are regenerated",
    "stronger clauses (one per frame, gap-free, increasing track times) are asserted only when no two droplets of a "
    "frame overlap and the time stamps of the time course increase",
]
REQUIRED_MONITORS = {"post:no-loss": 500, "post:no-duplicate": 500, "post:gap-free": 100,
                     "invariant:DropletTrack": 500}
MIN_NONTRIVIAL = 100


def lattice_spaces(tier):
    sp = [("ring4", 3), ("rect2x2", 2), ("rect2x3", 2)]
    if tier == "thorough":
        sp += [("ring5", 3), ("ring4", 4), ("rect2x2", 3)]
    return sp


def _sites(name):
    if name.startswith("ring"):
        return tracking.ring_sites(int(name[4:]))
    nx, ny = name[4:].split("x")
    return tracking.rect_sites(int(nx), int(ny))


def plan(tier, seed):
    out = []
    chunk = 512 if tier == "quick" else 2048
    for name, T in lattice_spaces(tier):
        sites, _ = _sites(name)
        total = (2 ** len(sites)) ** T
        for start in range(0, total, chunk):
            out.append({"name": f"lattice-{name}-T{T}#{start}", "kind": "lattice", "lattice": name,
                        "T": T, "start": start, "n": min(chunk, total - start), "total": total,
                        "seed": seed, "tier": tier, "timeout_s": 1800})
    if tier == "quick":
        kinds = {"random": 6000, "overlapping": 1500, "adversarial": 1500, "exact": 2500, "crowd": 3}
        per = 750
    else:
        kinds = {"random": 400000, "overlapping": 80000, "adversarial": 80000, "exact": 120000, "crowd": 16}
        per = 10000
    out += common.shards(kinds, per_shard=per, tier=tier, seed=seed)
    _out = out
    if tier == "thorough":
        _out = _out + [common.suite_shard(ID, tier, seed)]  # the repository's own tests under this monitor
    return _out


def install_invariant(rec):
    """icontract invariant on DropletTrack: times and droplets stay aligned."""
    import icontract
    from droplets import droplet_tracks

    class InvariantBroken(Exception):
        pass

    def aligned(self):
        rec.hit("invariant:DropletTrack")
        return len(self.times) == len(self.droplets)

    if not getattr(droplet_tracks.DropletTrack, "_vmon_inv", False):
        icontract.invariant(aligned, error=InvariantBroken)(droplet_tracks.DropletTrack)
        droplet_tracks.DropletTrack._vmon_inv = True
    return InvariantBroken


def nontrivial_history(hist):
    counts = [len(f) for f in hist["frames"]]
    return len(set(counts)) > 1 or 0 in counts or any(a != b for a, b in zip(counts[:-1], counts[1:]))


def judge(hist, rec, *, clauses="C06"):
    """Run one history through the monitored call and the requested checker(s)."""
    if tracking.has_knife_edge(hist):
        rec.count("knife_edge_skipped")
        return None
    call, etc, before, after = tracking.call_tracker(hist, rec)
    if clauses == "C06":
        indexed = tracking.check_partition(hist, call, before, after, rec)
        rec.evaluated(nontrivial=nontrivial_history(hist))
        rec.count(f"method:{hist['method']}|cut:{hist.get('max_dist')}|grid:{bool(hist.get('grid'))}")
        rec.count(f"frames:{len(hist['frames'])}")
        rec.count(f"members:{hist.get('cls', 'SphericalDroplet')}")
        if any(len(f) == 0 for f in hist["frames"]):
            rec.count("histories_with_empty_frame")
        return indexed
    # C07: needs a well-formed partition to speak about links at all
    if not call.ok:
        rec.check(False, "no-exception", f"raised {common.exc_text(call.exc)}; {tracking._label(hist)}")
        rec.evaluated(nontrivial=False)
        return None
    indexed, unknown = tracking.index_tracks(hist, list(call.result), rec)
    if unknown:
        rec.check(False, "identifiable", f"track members not found in the time course: {unknown[:3]}; {tracking._label(hist)}")
        rec.evaluated(nontrivial=False)
        return None
    facts = tracking.check_identity(hist, indexed, rec)
    rec.evaluated(nontrivial=facts["competition"] or facts["cross"])
    rec.count(f"method:{hist['method']}|cut:{hist.get('max_dist')}|grid:{bool(hist.get('grid'))}")
    if facts["cross"]:
        rec.count("histories_with_link_across_periodic_boundary")
    if facts["competition"]:
        rec.count("histories_with_competing_candidates")
    return indexed


def run_lattice(spec, rec, clauses):
    sites, bounds = _sites(spec["lattice"])
    ns, T = len(sites), spec["T"]
    name = f"occupancy:{spec['lattice']}-T{T}"
    rec.space(name, spec["total"], 0)
    done = 0
    for code in range(spec["start"], spec["start"] + spec["n"]):
        occ = []
        c = code
        for _t in range(T):
            occ.append(tuple((c >> k) & 1 for k in range(ns)))
            c >>= ns
        rng = core.sub_rng(spec["seed"], PROP_FOR_RNG, spec["lattice"], T, code)
        tm = code % len(tracking.LATTICE_TIME_AXES)
        origin = [0.0, -0.5 * len(sites), 10.0, 3.25][(code // 5) % 4]
        for hist in tracking.lattice_cases(rng, sites, bounds, occ, time_mode=tm, origin=origin):
            if clauses == "C07" and code % 4 == 3:
                # C07 speaks about consecutive frames of any time course: also decreasing times
                hist["times"] = [-float(t) for t in hist["times"]]
                hist["time_order"] = "decreasing"
            if clauses == "C07" and not tracking.frames_overlap_free(hist):
                rec.count("overlapping_frames_skipped")
                continue
            hist["kind"] = "lattice"
            with rec.case("lattice", hist):
                try:
                    judge(hist, rec, clauses=clauses)
                except Exception as e:  # noqa: BLE001
                    rec.harness_error("lattice", e)
        done += 1
    rec.space(name, spec["total"], done)


def gen(rng, kind, tier, *, repeated_stamps=True):
    for _ in range(20):
        if kind == "random":
            h = tracking.random_history(rng)
        elif kind == "overlapping":
            h = tracking.random_history(rng, overlapping=True)
        elif kind == "exact":
            h = tracking.exact_history(rng)
        elif kind == "crowd":
            return tracking.crowd_history(rng)
        else:
            h = tracking.adversarial_history(rng)
        if not tracking.has_knife_edge(h):
            n = len(h["times"])
            if repeated_stamps and kind in ("random", "overlapping") and n >= 2 and rng.random() < 0.08:
                # time courses in which a stamp occurs twice: the final state recorded by the regular interrupt and
                # again at the end of the run, or the data of a restarted run appended to the first one
                ts = list(h["times"])
                if rng.random() < 0.6:
                    k = int(rng.integers(0, n - 1))
                    ts[k + 1] = ts[k]
                    if rng.random() < 0.3 and float(ts[k]).is_integer():
                        ts[k + 1] = int(ts[k])
                else:
                    m = int(rng.integers(1, n))
                    ts = ts[:m] + ts[:n - m] if n - m <= m else ts[:m] + (ts[:m] * n)[:n - m]
                h["times"] = ts
            return h
    return None


def run(case, rec):
    judge(case, rec, clauses="C06")


def sentinels(rec):
    # D3: empty frame after a non-empty one with method="distance"
    h = {"dim": 2, "grid": None, "times": [0.0, 1.0, 2.0], "method": "distance", "max_dist": None,
         "frames": [[[1.0, 1.0, 0.5], [4.0, 4.0, 0.6]], [], [[1.1, 1.0, 0.5]]], "kind": "sentinel"}
    with rec.case("sentinel", h):
        judge(h, rec, clauses="C06")


def run_shard(spec, rec):
    if spec["kind"] == "suite":
        common.run_suite(ID, rec)
        return
    from droplets import droplet_tracks

    install_invariant(rec)
    rec.watch(droplet_tracks.DropletTrackList.from_emulsion_time_course, droplet_tracks.DropletTrack.append)
    if spec["kind"] == "lattice":
        if spec["start"] == 0 and spec["lattice"] == "ring4" and spec["T"] == 3:
            sentinels(rec)
        run_lattice(spec, rec, "C06")
    else:
        common.run_generated(spec, rec, gen, run, PROP_FOR_RNG)


def replay(v, rec):
    install_invariant(rec)
    with rec.case(v["kind"], v["case"]):
        judge(v["case"], rec, clauses="C06")
