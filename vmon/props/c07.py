"""C07 - tracks follow droplet identity.

Same recorded histories and monitored call as C06; the reference matcher is written from
the statement (link sets per frame pair), uses the oracle's own periodic metric and is
compared as *sets of links*, so track order is irrelevant.
"""

from __future__ import annotations

from . import c06, common, tracking

ID = "C07"
RULE = (
    "cases = the histories of C06 restricted to frames without overlapping droplets (lattice "
    "enumeration: occupancy histories on ring/rect lattices x {overlap, distance x cut-offs} x "
    "{no grid, periodic grid}; random and adversarial motions: uniform drift across periodic "
    "boundaries with step < half the separation, member-order swaps, disappearances; 30 % of the random and "
    "a quarter of the lattice histories carry decreasing or unordered (pairwise distinct) time stamps). "
    "Non-trivial = some frame pair offers >=2 candidates (competition) or a link crosses a "
    "periodic boundary. Distinct = digest of the whole case."
)
ASSUMPTIONS = [
    "knife-edges (distance within 1e-9 of a radius sum or cut-off) are excluded by the generators",
    "the closest-pair clause is asserted only for frame pairs whose distances are pairwise distinct (> 1e-9 apart)",
    "distances use the oracle's own minimum image when a grid is supplied",
]
REQUIRED_MONITORS = {"post:links-overlap": 200, "post:links-within-cutoff": 200, "post:closest-pair": 200,
                     "post:one-to-one-followed": 200, "post:no-missed-link": 100}
MIN_NONTRIVIAL = 100


def plan(tier, seed):
    out = [s for s in c06.plan(tier, seed) if s["kind"] == "lattice"]
    if tier == "quick":
        kinds = {"random": 6000, "adversarial": 3000, "exact": 2500, "crowd": 3}
        per = 750
    else:
        kinds = {"random": 400000, "adversarial": 150000, "exact": 120000, "crowd": 60}
        per = 10000
    return out + common.shards(kinds, per_shard=per, tier=tier, seed=seed)


def gen(rng, kind, tier):
    h = c06.gen(rng, kind, tier, repeated_stamps=False)  # identity is keyed on the stamps: they stay pairwise distinct
    if h is not None and len(h["times"]) >= 2 and rng.random() < 0.3:
        # the statement speaks about consecutive frames of any time course: the time stamps need
        # not increase (e.g. a reversed course); they stay pairwise distinct
        if rng.random() < 0.5:
            h["times"] = h["times"][::-1]
            h["time_order"] = "decreasing"
        else:
            h["times"] = [h["times"][i] for i in rng.permutation(len(h["times"]))]
            h["time_order"] = "unordered"
    return h


def run(case, rec):
    if not tracking.frames_overlap_free(case):
        rec.count("overlapping_frames_skipped")
        return
    c06.judge(case, rec, clauses="C07")


def run_shard(spec, rec):
    from droplets import droplet_tracks
    from droplets import droplets as dmod

    rec.watch(droplet_tracks.DropletTrackList.from_emulsion_time_course, dmod.SphericalDroplet.overlaps)
    if spec["kind"] == "lattice":
        c06.run_lattice(spec, rec, "C07")
    else:
        common.run_generated(spec, rec, gen, run, c06.PROP_FOR_RNG)


def replay(v, rec):
    with rec.case(v["kind"], v["case"]):
        c06.judge(v["case"], rec, clauses="C07")
