"""C07 - tracks follow droplet identity.

Same recorded histories and monitored call as C06; the reference matcher is written from
the statement (link sets per frame pair), uses the oracle's own periodic metric and is
compared as *sets of links*, so track order is irrelevant.
"""

from __future__ import annotations

from . import c06, common, tracking

ID = "C07"
RULE = (
    "cases = the histories of C06 restricted to frames without overlapping droplets (lattice "
    "enumeration: occupancy histories on ring/rect lattices x {overlap, distance x cut-offs} x "
    "{no grid, periodic grid}; random and adversarial motions: uniform drift across periodic "
    "boundaries with step < half the separation, member-order swaps, disappearances; 30 % of the random and "
    "a quarter of the lattice histories carry decreasing or unordered (pairwise distinct) time stamps). "
    "Non-trivial = some frame pair offers >=2 candidates (competition) or a link crosses a "
    "periodic boundary. Distinct = digest of the whole case."
)
ASSUMPTIONS = [
    "knife-edges (distance within 1e-9 of a radius sum or cut-off) are excluded by the generators",
    "the closest-pair clause is asserted only for frame pairs whose distances are pairwise distinct (> 1e-9 apart)",
    "distances use the oracle's own minimum image when a grid is supplied",
]
REQUIRED_MONITORS = {"post:links-overlap": 200, "post:links-within-cutoff": 200, "post:closest-pair": 200,
                     "post:one-to-one-followed": 200, "post:no-missed-link": 100}
MIN_NONTRIVIAL = 100


def plan(tier, seed):
    out = [s for s in c06.plan(tier, seed) if s["kind"] == "lattice"]
    if tier == "quick":
        kinds = {"random": 6000, "adversarial": 3000, "exact": 2500, "crowd": 3, "storage": 40}
        per = 750
    else:
        kinds = {"random": 400000, "adversarial": 150000, "exact": 120000, "crowd": 16, "storage": 600}
        per = 10000
    return out + common.shards(kinds, per_shard=per, tier=tier, seed=seed)


def gen(rng, kind, tier):
    if kind == "storage":
        # stored images of a few droplets that jump by more than their diameter per frame (so the two matching methods
        # disagree): tracks built directly from the storage follow the same rule as tracks built from the analysed frames
        n = int(rng.integers(20, 33))
        k = int(rng.integers(1, 4))
        T = int(rng.integers(2, 5))
        start = rng.uniform(4, n - 4, (k, 2))
        vel = rng.uniform(-1, 1, (k, 2)) * float(rng.choice([0.3, 3.0, 5.0]))
        frames = [[[float(x) for x in (start[j] + t * vel[j]) % n] + [float(rng.uniform(1.5, 2.5))] for j in range(k)] for t in range(T)]
        return {"n": n, "frames": frames, "method": str(rng.choice(["distance", "overlap"])), "periodic": bool(rng.integers(0, 2))}
    h = c06.gen(rng, kind, tier, repeated_stamps=False)  # identity is keyed on the stamps: they stay pairwise distinct
    if h is not None and len(h["times"]) >= 2 and rng.random() < 0.3:
        # the statement speaks about consecutive frames of any time course: the time stamps need
        # not increase (e.g. a reversed course); they stay pairwise distinct
        if rng.random() < 0.5:
            h["times"] = h["times"][::-1]
            h["time_order"] = "decreasing"
        else:
            h["times"] = [h["times"][i] for i in rng.permutation(len(h["times"]))]
            h["time_order"] = "unordered"
    return h


def run_storage(case, rec):
    import droplets
    import pde

    from .c08 import snap

    grid = pde.UnitGrid([case["n"]] * 2, periodic=case["periodic"])
    fields = [droplets.Emulsion([droplets.DiffuseDroplet(r[:2], r[2], 0.8) for r in fr]).get_phasefield(grid) for fr in case["frames"]]
    storage = pde.MemoryStorage.from_fields(times=[0.5 * t for t in range(len(fields))], fields=fields)
    label = f"{len(fields)} stored frames on UnitGrid([{case['n']}]*2, periodic={case['periodic']}) method={case['method']}"
    direct = common.monitored(rec, "DropletTrackList.from_storage", droplets.DropletTrackList.from_storage, storage,
                              method=case["method"], progress=False)
    etc = droplets.EmulsionTimeCourse.from_storage(storage, progress=False)
    ref = common.monitored(rec, "from_emulsion_time_course", droplets.DropletTrackList.from_emulsion_time_course, etc,
                           method=case["method"])
    if rec.check(direct.ok and ref.ok, "no-exception", f"raised {direct.exc!r} / {ref.exc!r}; {label}"):
        a = sorted((tuple(float(t) for t in tr.times), tuple(common.droplet_bytes(d) for d in tr.droplets)) for tr in direct.result)
        b = sorted((tuple(float(t) for t in tr.times), tuple(common.droplet_bytes(d) for d in tr.droplets)) for tr in ref.result)
        rec.check(a == b, "storage-route",
                  f"tracks built from the storage ({len(a)} tracks of lengths {sorted(len(x[0]) for x in a)}) differ from tracks built "
                  f"from the analysed frames with the same method ({len(b)} tracks of lengths {sorted(len(x[0]) for x in b)}); {label}")
        other = droplets.DropletTrackList.from_emulsion_time_course(etc, method="overlap" if case["method"] == "distance" else "distance")
        if sorted(len(tr) for tr in other) != sorted(len(x[0]) for x in b):
            rec.count("storage_cases_where_the_methods_disagree")
    rec.evaluated(nontrivial=True)


def run(case, rec):
    if case.get("kind") == "storage":
        return run_storage(case, rec)
    if not tracking.frames_overlap_free(case):
        rec.count("overlapping_frames_skipped")
        return
    c06.judge(case, rec, clauses="C07")


def run_shard(spec, rec):
    from droplets import droplet_tracks
    from droplets import droplets as dmod

    rec.watch(droplet_tracks.DropletTrackList.from_emulsion_time_course, dmod.SphericalDroplet.overlaps)
    if spec["kind"] == "lattice":
        c06.run_lattice(spec, rec, "C07")
    else:
        common.run_generated(spec, rec, gen, run, c06.PROP_FOR_RNG)


def replay(v, rec):
    with rec.case(v["kind"], v["case"]):
        if v["kind"] == "storage":
            run_storage(v["case"], rec)
        else:
            c06.judge(v["case"], rec, clauses="C07")
