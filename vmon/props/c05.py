"""C05 - refined localisation recovers position, radius and interface width.

Monitor: post-condition on ``locate_droplets(field, refine=True, ...)``; the workload hands
the ground truth to the oracle, which matches by the minimum-image distance.
"""

from __future__ import annotations

import numpy as np

from ..oracles import geom
from . import common

ID = "C05"
RULE = (
    "cases = fields a + b*clip(sum of tanh profiles) of 1..4 diffuse droplets satisfying the "
    "statement's preconditions (R in [3,8] cells - a fifth up to 20 (1-D, polar, spherical) / 14 (2-D) cells -, w in [1,2] cells, spacing ratio within "
    "[0.85,1.15], distance to non-periodic walls >= R+4w, surface gaps >= 12w + fit margin) on "
    "Cartesian d=1..3 grids with every periodicity mask (centres anywhere, also outside the "
    "box), polar, spherical and cylindrical grids; threshold in {0.5,0.3,0.7,auto,extrema,mean,"
    "otsu} (numbers mapped with the intensities); levels supplied or fitted. Non-trivial = a "
    "droplet's support crosses a periodic boundary, or a non-default threshold, or non-standard "
    "intensities. Distinct = digest of the case."
)
ASSUMPTIONS = [
    "ground truth is supplied by the generator; matching uses the oracle's own periodic metric",
    "dyadic intensity maps a + b*profile with a in [-4,12], b in {2^-13, 2^-10, 1/4, 1, 8, 1024}",
    "'automatic levels without fitting' is not claimed by the statement and not asserted",
    "numeric thresholds other than the midpoint (0.3, 0.7 of the range) are asserted with supplied levels only; with "
    "fitted levels they are measured but not judged (an arbitrary number is not a threshold rule)",
    "periodic cylindrical grids: images rendered by the library keep droplets R+4w+3h away from the z boundary (its "
    "renderer does not wrap there, py-pde metric, see C03); droplets across or exactly on that boundary are rendered "
    "by the harness itself with the periodic distance (single droplet, 45 % of the periodic cylindrical cases)",
]
REQUIRED_MONITORS = {"post:recovered": 40, "post:count": 40}
MIN_NONTRIVIAL = 20
TOL = 1e-4


def plan(tier, seed):
    if tier == "quick":
        kinds = {"cart1": 200, "cart2": 300, "cart3": 40, "sym": 160, "cyl": 100, "poly": 24}
        per = 25
    else:
        kinds = {"cart1": 8000, "cart2": 12000, "cart3": 1500, "sym": 6000, "cyl": 4000, "poly": 500}
        per = 400
    return common.shards(kinds, per_shard=per, tier=tier, seed=seed, timeout_s=3000)


def _thresholds(rng):
    return rng.choice(["0.5", "0.5", "0.3", "0.7", "auto", "extrema", "mean", "otsu"])


def _levels(rng):
    if rng.random() < 0.45:
        return 0.0, 1.0
    a = float(rng.integers(-32, 97)) / 8
    b = float(rng.choice([0.25, 1.0, 8.0, 0.25, 1.0, 8.0, 2.0 ** -10, 2.0 ** -13, 1024.0]))  # contrast of the image
    if b < 0.01:
        a = float(rng.integers(-4, 9)) / 8  # keep |a|/b moderate: a + b*profile has to resolve the profile
    return a, b


def _gen(rng, kind, tier):
    for _ in range(50):
        c = _gen_once(rng, kind, tier)
        if c is not None:
            return c
    return None


def _unit(rng):
    """Length unit of the case: a power of ten in 1e-9..1e9 for a fifth of the cases (a grid in nanometres or in
    kilometres is as supported as one with cells of order one)."""
    if rng.random() >= 0.2:
        return 1.0
    # round 7 (C05_19): down to nanometres expressed in metres and up to 1e9, where absolute tolerances of 1e-8 bite
    return float(10.0 ** int(rng.choice([-9, -8, -6, -4, -3, -2, -1, 0, 1, 2, 3, 4, 6, 9])))


def _gen_once(rng, kind, tier):
    a, b = _levels(rng)
    u = _unit(rng)
    thr = str(_thresholds(rng))
    standard = (a, b) == (0.0, 1.0)
    r = rng.random()
    if standard and r < 0.4:
        refine_args = {}
    elif r < 0.6:
        refine_args = {"vmin": a, "vmax": a + b}
    elif r < 0.8:
        refine_args = {"vmin": a, "vmax": a + b, "adjust_values": True}
    else:
        refine_args = {"vmin": None, "vmax": None, "adjust_values": True}
    if kind in ("cart1", "cart2", "cart3"):
        dim = int(kind[-1])
        h0 = float(rng.uniform(0.3, 2.5))
        h = np.round(h0 * rng.uniform(0.93, 1.07, dim), 4) * u
        k = int(rng.integers(1, 5)) if dim < 3 else int(rng.integers(1, 3))
        hm = float(h.mean())
        Rmax = {1: 8.0, 2: 8.0, 3: 4.5}[dim]
        if dim < 3 and rng.random() < 0.2:
            Rmax, k = {1: 20.0, 2: 14.0}[dim], min(k, 2)  # finely resolved droplets
        drops = []
        for _i in range(k):
            drops.append((float(rng.uniform(3.0, Rmax) * hm), float(rng.uniform(1.0, 2.0) * hm)))
        wmax = max(w for _, w in drops)
        margin = (1 + int(2 * wmax / h.min()) + 3)
        need = sum(2 * R for R, _ in drops) / hm + k * (12 * wmax / hm + 2 * margin)
        if dim == 1:
            n = [int(need + rng.integers(4, 20))]
        else:
            side = max(2 * max(R for R, _ in drops) / hm + 2 * margin + 8 * wmax / hm,
                       (need * 1.3) / max(1, k ** (1 - 1 / dim)) if k > 1 else 0)
            n = [int(side + rng.integers(2, 10)) for _ in range(dim)]
            straddle = bool(rng.random() < 0.15)  # elongated periodic box with a droplet sitting on a boundary
            if straddle or rng.random() < 0.4:  # elongated boxes: very different cell counts per axis
                ax = int(rng.integers(dim))
                n[ax] = int(n[ax] * rng.uniform(2.0 if (straddle and dim == 2) else 1.5, 3.0 if dim == 2 else 1.8))
        cap = {1: 400, 2: 140, 3: 44}[dim]
        if max(n) > cap:
            return None
        periodic = [bool(rng.integers(0, 2)) for _ in range(dim)]
        if dim > 1 and straddle:
            periodic = [True] * dim
        lo = np.round(rng.uniform(-5, 5, dim), 3) * u
        spec = {"family": "cart", "bounds": [[float(lo[i]), float(lo[i] + h[i] * n[i])] for i in range(dim)],
                "shape": n, "periodic": periodic, "unit": u}
        L = h * np.asarray(n)
        periods = geom.cart_periodicity(spec)
        placed = []
        for R, w in drops:
            ok = False
            for _try in range(60):
                c = np.empty(dim)
                good = True
                for ax in range(dim):
                    if periodic[ax]:
                        if 2 * R + 2 * margin * h[ax] + 8 * w > L[ax]:
                            good = False
                            break
                        c[ax] = rng.uniform(lo[ax] - L[ax], lo[ax] + 2 * L[ax])
                        if dim > 1 and straddle and not placed and rng.random() < 0.6:
                            c[ax] = lo[ax] + float(rng.integers(0, 2)) * L[ax] + rng.uniform(-0.5, 0.5) * R  # on the boundary
                    else:
                        a0, a1 = lo[ax] + R + 4 * w, lo[ax] + L[ax] - R - 4 * w
                        if a0 >= a1:
                            good = False
                            break
                        c[ax] = rng.uniform(a0, a1)
                        if rng.random() < 0.15:
                            # next to a wall: complete droplet whose interface ends one to two widths before it
                            gap = R + rng.uniform(1.0, 2.5) * w + h[ax]
                            c[ax] = lo[ax] + gap if rng.random() < 0.5 else lo[ax] + L[ax] - gap
                if not good:
                    break
                if all(geom.distance(c, c2, periods) - R - R2 >= 12 * max(w, w2) + 2 * margin * float(h.max())
                       for c2, R2, w2 in placed):
                    placed.append((c, R, w))
                    ok = True
                    break
            if not ok:
                return None
        dl = [{"pos": c.tolist(), "radius": R, "width": w} for c, R, w in placed]
        case = {"grid": spec, "droplets": dl, "levels": [a, b], "threshold": thr, "refine_args": refine_args}
        if rng.random() < 0.06:
            case["num_processes"] = 2
        return case
    if kind == "poly":
        # strongly polydisperse emulsion: a small droplet as close to a big one as "well separated" allows
        # (its centre is then closer to the big droplet's centre than that droplet's diameter)
        dim = int(rng.choice([1, 2, 2]))
        hm = float(np.round(rng.uniform(0.5, 1.5), 3)) * u
        w = float(rng.uniform(1.0, 1.3) * hm)
        Rs = float(rng.uniform(3.0, 3.6) * hm)
        margin = 1 + int(2 * w / hm) + 3
        gap = 12 * w + 2 * margin * hm
        Rb = float(Rs + gap + rng.uniform(2.0, 5.0) * hm)
        d = Rb + Rs + gap * 1.02
        pad = 4 * w + 3 * hm
        nx = int((2 * Rb + 2 * pad + d - Rb + Rs + pad) / hm) + 2
        ny = int((2 * Rb + 2 * pad) / hm) + 2
        lo = [float(np.round(rng.uniform(-3, 3), 2)) * u for _ in range(dim)]
        shape = [nx] + [ny] * (dim - 1)
        spec = {"family": "cart", "bounds": [[lo[a], lo[a] + hm * shape[a]] for a in range(dim)], "shape": shape,
                "periodic": [bool(rng.integers(0, 2)) for _ in range(dim)], "unit": u}
        cb = [lo[0] + pad + Rb] + [lo[a] + hm * shape[a] / 2 for a in range(1, dim)]
        cs = [cb[0] + d] + [cb[a] for a in range(1, dim)]
        dl = [{"pos": cb, "radius": Rb, "width": w}, {"pos": cs, "radius": Rs, "width": w}]
        if rng.random() < 0.5:
            dl = dl[::-1]
        return {"grid": spec, "droplets": dl, "levels": [a, b], "threshold": thr, "refine_args": refine_args}
    if kind == "sym":
        fam = "polar" if rng.random() < 0.5 else "sph"
        hr = float(np.round(rng.uniform(0.3, 2.5), 4)) * u
        R = float(rng.uniform(3.0, 8.0) * hr)
        if rng.random() < 0.3:
            R = float(rng.uniform(8.0, 20.0) * hr)  # finely resolved droplets that fill most of the grid
        w = float(rng.uniform(1.0, 2.0) * hr)
        n = int((R + 4 * w) / hr + rng.integers(4, 16))
        spec = {"family": fam, "radius": hr * n, "shape": [n], "unit": u}
        if rng.random() < 0.35:
            # annular / shell-shaped grid: the inner radius is not 0 (the centred droplet covers the hole)
            r_in = float(np.round(rng.uniform(0.1, 0.7) * R / u, 3)) * u
            if refine_args.get("adjust_values"):
                # fitted levels need the inner plateau on the grid (otherwise the inside level is not
                # determined by the image): keep the hole at least four widths inside the interface
                r_in = float(np.round(rng.uniform(0.1, 1.0) * max(0.0, R - 4 * w) / u, 3)) * u
            # the droplet has to be visible at every threshold rule: the innermost cell centre lies at least one
            # interface width inside the interface (value >= 0.88 of the contrast; a thorough run met a hole of 0.66 R
            # under the numeric threshold 0.7 - no cell above it, nothing to locate)
            r_in = min(r_in, float(np.floor(max(0.0, R - w - 0.5 * hr) / u * 1000) / 1000) * u)
            if r_in >= 0.5 * hr:
                spec["radius"] = [r_in, r_in + hr * n]
        dim = 2 if fam == "polar" else 3
        return {"grid": spec, "droplets": [{"pos": [0.0] * dim, "radius": R, "width": w}],
                "levels": [a, b], "threshold": thr, "refine_args": refine_args}
    if kind == "cyl":
        hr = float(np.round(rng.uniform(0.3, 2.0), 4)) * u
        hz = float(np.round(hr / u * rng.uniform(0.87, 1.13), 4)) * u
        hm = (hr + hz) / 2
        k = int(rng.integers(1, 3))
        drops = [(float(rng.uniform(3.0, 5.5) * hm), float(rng.uniform(1.0, 2.0) * hm)) for _ in range(k)]
        wmax = max(w for _, w in drops)
        Rm = max(R for R, _ in drops)
        nr = int((Rm + 4 * wmax) / hr + rng.integers(4, 10))
        margin = 1 + int(2 * wmax / min(hr, hz)) + 3
        need = sum(2 * R + 8 * w for R, w in drops) / hz + (k + 1) * margin + (k - 1) * 12 * wmax / hz
        nz = int(need + rng.integers(4, 14))
        if nz > 90:
            return None
        z0 = float(np.round(rng.uniform(-5, 5), 3)) * u
        spec = {"family": "cyl", "radius": hr * nr, "bounds_z": [z0, z0 + hz * nz], "shape": [nr, nz],
                "periodic_z": bool(rng.integers(0, 2)), "unit": u}
        placed = []
        for R, w in drops:
            ok = False
            for _try in range(60):
                a0, a1 = z0 + R + 4 * w + 3 * hz, z0 + hz * nz - R - 4 * w - 3 * hz
                if a0 >= a1:
                    break
                z = float(rng.uniform(a0, a1))
                if not spec["periodic_z"] and rng.random() < 0.3:
                    # next to a wall: the droplet is complete, its interface ends one to two widths before the wall
                    gap = R + rng.uniform(1.0, 2.5) * w + hz
                    z = float(z0 + gap if rng.random() < 0.5 else z0 + hz * nz - gap)
                if all(abs(z - z2) - R - R2 >= 12 * max(w, w2) + 2 * margin * hz for z2, R2, w2 in placed):
                    placed.append((z, R, w))
                    ok = True
                    break
            if not ok:
                return None
        dl = [{"pos": [0.0, 0.0, z], "radius": R, "width": w} for z, R, w in placed]
        case = {"grid": spec, "droplets": dl, "levels": [a, b], "threshold": thr, "refine_args": refine_args}
        if spec["periodic_z"] and rng.random() < 0.45:
            # one droplet across (or centred exactly on) the periodic z boundary.  The image is rendered by the
            # harness with the periodic distance, as a periodic simulation would produce it (the library's own
            # renderer does not wrap droplets on cylindrical grids, see C03)
            R, w = drops[0]
            off = 0.0 if rng.random() < 0.3 else float(rng.uniform(-1.0, 1.0) * R)
            z = z0 + float(rng.integers(0, 2)) * hz * nz + off
            case["droplets"] = [{"pos": [0.0, 0.0, float(z)], "radius": R, "width": w}]
            case["render"] = "periodic-oracle"
        return case
    raise ValueError(kind)


PREVIEWS = [{"least_squares_params": {"max_nfev": 3}}, {"least_squares_params": {"ftol": 1e-1, "xtol": 1e-1}},
            {"least_squares_params": {"method": "dogbox", "max_nfev": 5}}, {"tolerance": 1e-1}]


_SHARED_ARGS: dict = {}  # one refine_args object per option set and process, reused for all its images (as one
#                          does when analysing a series of images); the library gets the very same dict every time


def gen(rng, kind, tier):
    case = _gen(rng, kind, tier)
    if case is not None and rng.random() < 0.15 and (case["levels"][1] >= 0.25 or case["levels"] == [0.0, 1.0]):
        case["float32"] = True  # single-precision image (moderate contrast, so the profile is resolved by the type)
    if case is not None and rng.random() < 0.5:
        case["shared_args"] = True
    if case is not None and rng.random() < 0.12:
        # a quick, coarse preview of the same image with other fit options precedes the judged
        # call (ordinary use; earlier calls must not influence later ones)
        case["preview"] = PREVIEWS[int(rng.integers(len(PREVIEWS)))]
    return case


def run(case, rec):
    import droplets
    from pde import ScalarField

    spec = case["grid"]
    grid = geom.make_grid(spec)
    dim = geom.space_dim(spec)
    periods = geom.cart_periodicity(spec)
    a, b = case["levels"]
    em = droplets.Emulsion([droplets.DiffuseDroplet(np.asarray(d["pos"], float), d["radius"], d["width"])
                            for d in case["droplets"]])
    prof = em.get_phasefield(grid)
    if case.get("render") == "periodic-oracle":
        L = spec["bounds_z"][1] - spec["bounds_z"][0]
        rr, zz = grid.cell_coords[..., 0], grid.cell_coords[..., 1]
        data = np.zeros(grid.shape)
        for d in case["droplets"]:
            dz = (zz - d["pos"][2] + L / 2) % L - L / 2
            data += 0.5 + 0.5 * np.tanh((d["radius"] - np.sqrt(rr ** 2 + dz ** 2)) / d["width"])
        prof = ScalarField(grid, data)
        rec.count("cylindrical_droplets_across_the_periodic_boundary")
    field = ScalarField(grid, a + b * prof.data)
    if case.get("float32"):
        field = ScalarField(grid, (a + b * prof.data).astype(np.float32), dtype=np.float32)
        rec.count("single_precision_images")
    thr = case["threshold"]
    threshold = (a + b * float(thr)) if thr[0].isdigit() else thr
    kwargs = {"threshold": threshold, "refine": True, "refine_args": dict(case["refine_args"])}
    if case.get("shared_args") and not case.get("preview"):
        # automatic levels: the same dict object serves every image analysed with these options in this process
        key = repr(sorted(case["refine_args"].items())) if case["refine_args"].get("vmin", 0) is None or not case["refine_args"] else None
        if key is not None:
            kwargs["refine_args"] = _SHARED_ARGS.setdefault(key, dict(case["refine_args"]))
            rec.count("calls_sharing_one_refine_args_dict")
    if case.get("num_processes"):
        kwargs["num_processes"] = case["num_processes"]
        rec.count("with_worker_processes")
        if not case.get("float32"):
            # the field object is the state of a running simulation: it was analysed before (with worker processes as
            # well) when it still held another image, and was updated in place since
            final = np.array(field.data, copy=True)
            field.data[...] = np.roll(final, [max(1, n_ // 2) for n_ in final.shape], axis=tuple(range(final.ndim)))
            common.monitored(rec, "earlier:locate_droplets", droplets.locate_droplets, field, **{**kwargs, "refine_args": dict(kwargs["refine_args"])})
            field.data[...] = final
            rec.count("field_object_analysed_before_with_another_image")
    if case.get("preview"):
        pk = dict(kwargs)
        pk["refine_args"] = {**dict(case["refine_args"]), **{k: (dict(v) if isinstance(v, dict) else v) for k, v in case["preview"].items()}}
        common.monitored(rec, "preview:locate_droplets", droplets.locate_droplets, field, **pk)  # not judged
        rec.count("preceded_by_a_coarse_preview_call")
    call = common.monitored(rec, "locate_droplets", droplets.locate_droplets, field, **kwargs)
    label = f"grid={geom.grid_label(spec)}{spec['shape']} unit={spec.get('unit', 1.0):g} thr={thr} levels={case['levels']} args={case['refine_args']}"
    if not rec.check(call.ok, "no-exception",
                     f"locate_droplets raised {common.exc_text(call.exc) if call.exc else ''}; {label}"):
        rec.evaluated(nontrivial=False)
        return
    found = list(call.result)
    # does any droplet's support cross a periodic boundary?
    crosses = False
    if spec["family"] == "cart":
        bnd = np.asarray(spec["bounds"], float)
        for d in case["droplets"]:
            for ax in range(dim):
                if spec["periodic"][ax]:
                    c = (d["pos"][ax] - bnd[ax, 0]) % (bnd[ax, 1] - bnd[ax, 0])
                    if c < d["radius"] + 2 * d["width"] or (bnd[ax, 1] - bnd[ax, 0]) - c < d["radius"] + 2 * d["width"]:
                        crosses = True
    rec.evaluated(nontrivial=crosses or thr != "0.5" or (a, b) != (0.0, 1.0))
    rec.count(f"family:{geom.grid_label(spec)}")
    rec.count(f"length_unit:{spec.get('unit', 1.0):g}")
    rec.count(f"threshold:{thr}")
    rec.count("levels:" + ("standard" if (a, b) == (0.0, 1.0) else "mapped") + "|" +
              ("fitted" if case["refine_args"].get("adjust_values") else "supplied"))
    if crosses:
        rec.count("crossing_periodic_boundary")
    if not rec.check(len(found) == len(case["droplets"]), "count",
                     f"{len(case['droplets'])} droplets rendered, {len(found)} located; {label}; found="
                     f"{[(list(map(float, f.position)), f.radius) for f in found]}"):
        return
    used = set()
    for d in case["droplets"]:
        c = np.asarray(d["pos"], float)
        best, bj = None, None
        for j, f in enumerate(found):
            if j in used:
                continue
            dist = float(np.max(np.abs(geom.min_image(np.asarray(f.position, float) - c, periods))))
            if best is None or dist < best:
                best, bj = dist, j
        f = found[bj]
        used.add(bj)
        w_f = f.interface_width if getattr(f, "interface_width", None) is not None else float("nan")
        err = max(best / d["radius"], abs(f.radius - d["radius"]) / d["radius"], abs(w_f - d["width"]) / d["width"])
        if thr[0].isdigit() and thr != "0.5" and case["refine_args"].get("adjust_values"):
            # A numeric threshold away from the midpoint shrinks/enlarges the candidate, hence the fit
            # region; with *fitted* levels the truncated profile no longer determines them (the solver
            # stops at a stationary point with ~1e-2 error).  The statement promises recovery "for every
            # threshold rule"; an arbitrary number is not one of the rules, so this combination is only
            # measured, not judged (DESIGN 5a).
            rec.count("diagnostic:offmid_number+fitted_levels")
            if not err < TOL:
                rec.count("diagnostic:offmid_number+fitted_levels:error>1e-4")
            rec.note_max("diagnostic_max_error_offmid_number_fitted", err if err == err else 1e9)
            continue
        rec.note_max("max_relative_error", err if err == err else 1e9)
        rec.check(err < TOL, "recovered",
                  f"original pos={d['pos']} R={d['radius']} w={d['width']} recovered as pos="
                  f"{list(map(float, f.position))} R={f.radius} w={w_f} (relative error {err}); {label}")


def sentinels(rec):
    """Regression cases for the repaired finding 'contrast-dependent-accuracy' (no suppression)."""
    g2 = {"family": "cart", "bounds": [[0.0, 32.0], [0.0, 32.0]], "shape": [32, 32], "periodic": [True, False]}
    one = [{"pos": [16.3, 15.1], "radius": 6.2, "width": 1.4}]
    cases = [
        {"grid": g2, "droplets": one, "levels": [0.5, 1e-3], "threshold": "extrema", "refine_args": {"vmin": 0.5, "vmax": 0.501}},
        {"grid": g2, "droplets": one, "levels": [0.5, 1e-3], "threshold": "extrema",
         "refine_args": {"vmin": None, "vmax": None, "adjust_values": True}},
        # the witness that exposed it: low contrast, weakly resolved plateau, automatic start + fitted levels
        {"grid": {"family": "sph", "radius": 7.588799999999999, "shape": [18]},
         "droplets": [{"pos": [0.0, 0.0, 0.0], "radius": 1.46517631945419, "width": 0.5993918417306248}],
         "levels": [0.5, 0.25], "threshold": "extrema", "refine_args": {"vmin": None, "vmax": None, "adjust_values": True}},
    ]
    # regression cases for the repaired finding 'fitted-outside-level-bound' (no suppression): big droplets
    # filling most of a radially symmetric grid, threshold 'mean' (high there, so the candidate ends inside
    # the interface and the automatic start value of the outside level is far above the true level)
    auto = {"vmin": None, "vmax": None, "adjust_values": True}
    cases += [
        {"grid": {"family": "sph", "radius": 0.2596279483478093 * 18, "shape": [18]},
         "droplets": [{"pos": [0.0, 0.0, 0.0], "radius": 2.474229349793936, "width": 0.2889257931911556}],
         "levels": [5.5, 8.0], "threshold": "mean", "refine_args": dict(auto)},
        {"grid": {"family": "polar", "radius": 0.27805673304728984 * 30, "shape": [30]},
         "droplets": [{"pos": [0.0, 0.0], "radius": 4.3130770732264985, "width": 0.33833826398538724}],
         "levels": [4.875, 1.0], "threshold": "mean", "refine_args": dict(auto)},
        {"grid": {"family": "sph", "radius": 0.014887692998992338 * 21, "shape": [21]},
         "droplets": [{"pos": [0.0, 0.0, 0.0], "radius": 0.17205624206180065, "width": 0.0214332631611933}],
         "levels": [11.125, 1.0], "threshold": "mean", "refine_args": dict(auto)},
    ]
    for c in cases:
        c["kind"] = "sentinel"
        with rec.case("sentinel", c):
            run(c, rec)


def run_shard(spec, rec):
    from droplets import image_analysis as ia

    rec.watch(ia.locate_droplets, ia.refine_droplet, ia.threshold_otsu)
    if spec["kind"] == "cart2" and spec["start"] == 0:
        sentinels(rec)
    common.run_generated(spec, rec, gen, run, ID)


def replay(v, rec):
    with rec.case(v["kind"], v["case"]):
        run(v["case"], rec)
