"""C02 - each located droplet is one connected component under the grid's topology.

Monitor: input-agnostic post-condition on ``locate_droplets_in_mask(mask)``.
Oracle: flood fill on the universal cover (oracles/topology.py), closed-form cell volumes,
own minimum-image metric.
"""

from __future__ import annotations

import itertools
import math

import numpy as np

from ..oracles import geom, topology
from . import common

ID = "C02"
RULE = (
    "cases = (grid spec, binary image): complete enumeration of all images on small grids "
    "(1-D up to 10 cells, 2-D up to 3x4 [thorough 4x4, 3x5], 3-D 2x2x2 [thorough 2x2x3], "
    "cylindrical up to 3x4 [thorough 4x4]) times every periodicity mask, plus random images "
    "(densities 0.1-0.85, shapes to 14x14 / 7^3, anisotropic spacing) and structured shapes "
    "(U/S shapes, spirals crossing boundaries, rings, stripes, checker boards, touching discs, cylindrical "
    "head-and-tail components longer than half the box). "
    "Non-trivial = a component consisting of >=2 ndimage.label pieces, or >=2 components of "
    "which at least one is legitimately dropped, or a winding component. Distinct = digest "
    "of (grid spec, image bits)."
)
ASSUMPTIONS = [
    "py-pde grid geometry trusted; periodic metric is the oracle's own minimum image",
    "winding components: volume checked, position unconstrained (as the statement says)",
    "cylindrical z-centre accepted if it equals the count-weighted or the volume-weighted mean",
    "periodic cylindrical images with an on-axis component that winds or is longer than the "
    "box are checked for exceptions only (known finding cyl-periodic-spanning-fallback)",
    "sphere overlaps within 1e-9 of touching are treated as knife-edges (either outcome accepted)",
]
REQUIRED_MONITORS = {"post:one-to-one": 200, "post:no-overlap": 200}
MIN_NONTRIVIAL = 50

TOL = 1e-9

EX_SPACING = [0.7, 1.3, 0.9]
EX_ORIGIN = [-1.1, 0.4, 2.3]


def _ex_spaces(tier):
    """(family, shape) of completely enumerated spaces."""
    sp = [("cart", (n,)) for n in range(1, 11)]
    sp += [("cart", s) for s in [(2, 2), (2, 3), (3, 2), (3, 3), (3, 4), (4, 3), (1, 5), (5, 1)]]
    sp += [("cart", (2, 2, 2)), ("cart", (1, 2, 3))]
    sp += [("cyl", s) for s in [(1, 4), (2, 3), (3, 3), (3, 4), (2, 5)]]
    if tier == "thorough":
        sp += [("cart", (4, 4)), ("cart", (3, 5)), ("cart", (2, 2, 3)), ("cart", (3, 2, 2)),
               ("cyl", (4, 4)), ("cyl", (3, 5)), ("cyl", (2, 7))]
    return sp


def plan(tier, seed):
    specs = []
    chunk = 4096 if tier == "quick" else 16384
    for fam, shape in _ex_spaces(tier):
        ncell = int(np.prod(shape))
        masks = geom.all_periodic_masks(len(shape)) if fam == "cart" else [[False], [True]]
        for pm in masks:
            total = 2 ** ncell
            for start in range(0, total, chunk):
                specs.append({
                    "name": f"ex-{fam}-{'x'.join(map(str, shape))}-{''.join('P' if p else 'n' for p in pm)}#{start}",
                    "kind": "exhaustive", "family": fam, "shape": list(shape), "pmask": pm,
                    "start": start, "n": min(chunk, total - start), "total": total,
                    "seed": seed, "tier": tier, "timeout_s": 1800,
                })
    # merge tiny exhaustive shards into groups to save process start-ups
    small = [s for s in specs if s["n"] < chunk]
    big = [s for s in specs if s["n"] >= chunk]
    groups = []
    cur, cur_n = [], 0
    for s in small:
        cur.append(s)
        cur_n += s["n"]
        if cur_n >= chunk:
            groups.append(cur)
            cur, cur_n = [], 0
    if cur:
        groups.append(cur)
    out = [{"name": f"ex-group{i}", "kind": "exgroup", "members": g, "seed": seed,
            "tier": tier, "timeout_s": 1800} for i, g in enumerate(groups)] + big
    if tier == "quick":
        kinds = {"rand-cart": 2400, "rand-cyl": 900, "struct": 900}
        per = 300
    else:
        kinds = {"rand-cart": 120000, "rand-cyl": 40000, "struct": 40000}
        per = 5000
    out += common.shards(kinds, per_shard=per, tier=tier, seed=seed)
    _out = out
    if tier == "thorough":
        _out = _out + [common.suite_shard(ID, tier, seed)]  # the repository's own tests under this monitor
    return _out


# ------------------------------------------------------------------ oracle


def _sphere_radius(volume, dim):
    if dim == 1:
        return volume / 2
    if dim == 2:
        return math.sqrt(volume / math.pi)
    return (3 * volume / (4 * math.pi)) ** (1 / 3)


def expected_components(spec, mask):
    """Oracle view of the image: list of components with volume, position(s), winding."""
    fam = spec["family"]
    h = geom.spacing(spec)
    shape = tuple(spec["shape"])
    if fam == "cart":
        periodic = list(spec["periodic"])
        lo = np.asarray(spec["bounds"], float)[:, 0]
        L = h * np.asarray(shape)
        cellvol = float(np.prod(h))
        out = []
        for c in topology.components(mask, periodic):
            uc = topology.unwrapped_cell_coords(c, shape)
            pos = lo + uc.mean(axis=0) * h
            pieces = len({tuple(s) for s in c["sheets"].tolist()})
            out.append({"volume": cellvol * len(c["cells"]), "winding": c["winding"],
                        "positions": [pos], "sheets": pieces, "ncell": len(c["cells"]),
                        "extent": (uc.max(axis=0) - uc.min(axis=0) + 1).tolist()})
        return out, [L[a] if periodic[a] else None for a in range(len(shape))]
    if fam == "cyl":
        periodic = [False, bool(spec["periodic_z"])]
        z0 = spec["bounds_z"][0]
        edges = np.arange(shape[0] + 1) * h[0]
        ring = math.pi * (edges[1:] ** 2 - edges[:-1] ** 2) * h[1]
        out = []
        for c in topology.components(mask, periodic):
            on_axis = bool(np.any(c["cells"][:, 0] == 0))
            uc = topology.unwrapped_cell_coords(c, shape)
            w = ring[c["cells"][:, 0]]
            z_count = z0 + uc[:, 1].mean() * h[1]
            z_vol = z0 + float((uc[:, 1] * w).sum() / w.sum()) * h[1]
            out.append({"volume": float(w.sum()), "winding": c["winding"], "on_axis": on_axis,
                        "positions": [np.array([0.0, 0.0, z_count]), np.array([0.0, 0.0, z_vol])],
                        "sheets": len({tuple(s) for s in c["sheets"].tolist()}),
                        "ncell": len(c["cells"]),
                        "extent": (uc.max(axis=0) - uc.min(axis=0) + 1).tolist()})
        Lz = h[1] * shape[1]
        return out, [None, None, Lz if periodic[1] else None]
    raise ValueError(fam)


def d17_predicate(spec, comps, mask=None) -> bool:
    """Known finding cyl-periodic-spanning-fallback: periodic cylindrical image with an on-axis component that
    winds in z, or - for components longer than the box that do not wind - whose copy at the lower end of the
    three-period window (the image extended by one period to either side) is cut there and still longer than one
    period.  That is exactly the situation in which the analysis takes an object for box-spanning; other
    components longer than the box (e.g. a slanted band starting further up) are analysed correctly and judged."""
    if spec["family"] != "cyl" or not spec["periodic_z"]:
        return False
    nz = spec["shape"][1]
    if any(c["on_axis"] and c["winding"] for c in comps):
        return True
    if not any(c["on_axis"] and c["extent"][1] > nz for c in comps):
        return False
    if mask is None:
        return True
    from scipy import ndimage

    padded = np.pad(np.asarray(mask, bool), [[0, 0], [nz, nz]], mode="wrap")
    labels, _n = ndimage.label(padded)
    for sl in ndimage.find_objects(labels):
        if sl[0].start == 0 and sl[1].start == 0 and sl[1].stop > nz:
            return True
    return False


def _max_matching(adj, n_right):
    """Size of a maximum bipartite matching (Kuhn); adj[i] = list of right nodes."""
    match = [-1] * n_right

    def try_(u, seen):
        for v in adj[u]:
            if not seen[v]:
                seen[v] = True
                if match[v] < 0 or try_(match[v], seen):
                    match[v] = u
                    return True
        return False

    size = 0
    for u in range(len(adj)):
        if try_(u, [False] * n_right):
            size += 1
    return size, match


def check_result(spec, mask, found, rec, *, label="", ignore_known=False):
    """Judge one return value of locate_droplets_in_mask. Returns facts for statistics."""
    from scipy import ndimage

    fam = spec["family"]
    dim = geom.space_dim(spec)
    h = geom.spacing(spec)
    hmin = float(h.min())
    comps, periods = expected_components(spec, mask)
    if fam == "cyl":
        relevant = [c for c in comps if c["on_axis"]]
    else:
        relevant = comps
    n_pieces = int(ndimage.label(mask)[1])
    facts = {"ncomp": len(relevant), "multi_piece": any(c["sheets"] >= 2 for c in relevant),
             "winding": any(c["winding"] for c in relevant), "dropped": 0}

    if fam == "cyl" and d17_predicate(spec, comps, mask) and not ignore_known:
        rec.count("known_subdomain:cyl-periodic-spanning-fallback")
        facts["d17"] = True
        return facts

    drops = [(np.asarray(d.position, float), float(d.radius), float(d.volume)) for d in found]
    if not relevant:
        rec.check(len(drops) == 0, "empty",
                  f"{label}image without (on-axis) component gave {len(drops)} droplets")
        return facts

    # (a) one-to-one correspondence droplet -> component (volume and position)
    adj = []
    for pos, _r, vol in drops:
        cand = []
        for j, c in enumerate(relevant):
            if abs(vol - c["volume"]) > 1e-10 * c["volume"]:
                continue
            if c["winding"]:
                cand.append(j)
                continue
            for p in c["positions"]:
                delta = geom.min_image(pos - p, periods)
                if np.all(np.abs(delta) <= TOL * max(1.0, hmin) + 1e-9 * hmin):
                    cand.append(j)
                    break
        adj.append(cand)
    size, match = _max_matching(adj, len(relevant))
    ok = rec.check(
        size == len(drops), "one-to-one",
        f"{label}{len(drops)} droplets cannot be matched one-to-one to the {len(relevant)} "
        f"components: droplets={[(p.tolist(), v) for p, _r, v in drops]} components="
        f"{[(c['positions'][0].tolist(), c['volume'], c['winding'], c['sheets']) for c in relevant]}")
    # positions inside the bounds on periodic axes
    if fam == "cart":
        b = np.asarray(spec["bounds"], float)
        for pos, _r, _v in drops:
            for a in range(dim):
                if spec["periodic"][a]:
                    La = b[a, 1] - b[a, 0]
                    rec.check(b[a, 0] - TOL * La <= pos[a] <= b[a, 1] + TOL * La, "in-bounds",
                              f"{label}position {pos.tolist()} outside the box on periodic axis {a}")

    # (b) returned spheres never overlap under the periodic metric
    for (p1, r1, _), (p2, r2, _) in itertools.combinations(drops, 2):
        dist = geom.distance(p1, p2, periods)
        if (fam == "cyl" and spec["periodic_z"] and not ignore_known
                and float(np.linalg.norm(p1 - p2)) >= r1 + r2 > dist):
            # known finding cyl-periodic-overlap-across-boundary: only the wrapped distance
            # reveals this overlap; represented by its sentinel
            rec.count("known_subdomain:cyl-periodic-overlap-across-boundary")
            continue
        rec.check(dist >= r1 + r2 - TOL * max(1.0, r1 + r2), "no-overlap",
                  f"{label}returned spheres overlap: {p1.tolist()} r={r1} and {p2.tolist()} r={r2} "
                  f"(periodic distance {dist})")

    # (c) a component is left out only if it overlapped one at least as large
    if ok:
        matched = {j for j in match if False} | {v for v, u in enumerate(match) if u >= 0}
        for j, c in enumerate(relevant):
            if j in matched:
                continue
            facts["dropped"] += 1
            rj = _sphere_radius(c["volume"], dim)
            justified = False
            for k, c2 in enumerate(relevant):
                if k == j or c2["volume"] < c["volume"] * (1 - 1e-10):
                    continue
                if c["winding"] or c2["winding"]:
                    justified = True
                    break
                rk = _sphere_radius(c2["volume"], dim)
                dmin = min(geom.distance(p, q, periods) for p in c["positions"] for q in c2["positions"])
                if dmin < rj + rk + TOL * max(1.0, rj + rk):
                    justified = True
                    break
            rec.check(justified, "dropped-justified",
                      f"{label}component at {c['positions'][0].tolist()} volume {c['volume']} is missing "
                      f"although no component at least as large overlaps its sphere; returned="
                      f"{[(p.tolist(), v) for p, _r, v in drops]}")
    facts["pieces"] = n_pieces
    return facts


def judge(spec, mask, rec):
    """Run the monitored call on one image and judge it."""
    from droplets.image_analysis import locate_droplets_in_mask
    from pde import ScalarField

    grid = _grid(spec)
    field = ScalarField(grid, mask, dtype=bool)
    before = mask.copy()
    call = common.monitored(rec, "locate_droplets_in_mask", locate_droplets_in_mask, field)
    if not rec.check(call.ok, "no-exception",
                     f"locate_droplets_in_mask raised {common.exc_text(call.exc) if call.exc else ''}"):
        rec.evaluated(nontrivial=False)
        return
    rec.check(np.array_equal(field.data, before), "input-unchanged", "the mask was modified")
    facts = check_result(spec, mask, list(call.result), rec)
    # the returned emulsion belongs to the caller: what is done to it afterwards (here: droplets of later frames are
    # collected in it, or it is emptied) must not show up in the results of later calls
    try:
        import droplets as _dr

        res = call.result
        if len(res) == 0:
            res.append(_dr.SphericalDroplet(np.zeros(grid.dim) + 1.0, 1.0), copy=False)
            rec.hit("scribbled-results")
        elif len(res) >= 2 and mask.sum() % 3 == 0:
            res.clear()
            rec.hit("scribbled-results")
    except Exception as e:  # noqa: BLE001
        rec.harness_error("scribbling on a returned emulsion", e)
    nontrivial = facts["multi_piece"] or facts["winding"] or (facts["ncomp"] >= 2 and facts["dropped"] >= 1)
    rec.evaluated(nontrivial=nontrivial)
    if facts["multi_piece"]:
        rec.count("images_with_multi_piece_component")
    if facts["winding"]:
        rec.count("images_with_winding_component")
    if facts["dropped"]:
        rec.count("images_with_dropped_component")
    rec.count(f"components:{min(facts['ncomp'], 6)}")


_grid_cache: dict = {}


def _grid(spec):
    key = repr(spec)
    g = _grid_cache.get(key)
    if g is None:
        if len(_grid_cache) > 64:
            _grid_cache.clear()
        g = _grid_cache[key] = geom.make_grid(spec)
    return g


def _ex_spec(family, shape, pmask):
    d = len(shape)
    if family == "cart":
        h = EX_SPACING[:d]
        lo = EX_ORIGIN[:d]
        return {"family": "cart", "bounds": [[lo[i], lo[i] + h[i] * shape[i]] for i in range(d)],
                "shape": list(shape), "periodic": [bool(p) for p in pmask]}
    return {"family": "cyl", "radius": 0.7 * shape[0], "bounds_z": [-1.1, -1.1 + 1.3 * shape[1]],
            "shape": list(shape), "periodic_z": bool(pmask[0])}


def run_exhaustive(s, rec):
    spec = _ex_spec(s["family"], s["shape"], s["pmask"])
    shape = tuple(s["shape"])
    ncell = int(np.prod(shape))
    name = f"{s['family']}-{'x'.join(map(str, shape))}-{''.join('P' if p else 'n' for p in s['pmask'])}"
    rec.space(name, s["total"], 0)
    done = 0
    for bits in range(s["start"], s["start"] + s["n"]):
        mask = np.array([(bits >> k) & 1 for k in range(ncell)], dtype=bool).reshape(shape)
        case = {"grid": spec, "bits": bits}
        with rec.case("exhaustive", case):
            try:
                judge(spec, mask, rec)
            except Exception as e:  # noqa: BLE001
                rec.harness_error("exhaustive", e)
        done += 1
    rec.space(name, s["total"], done)
    rec.count(f"family:{geom.grid_label(spec)}", done)


# ------------------------------------------------------------------ random / structured


def gen(rng, kind, tier):
    if kind == "rand-cart":
        dim = int(rng.choice([1, 2, 2, 2, 3]))
        nmax = {1: 20, 2: 14, 3: 7}[dim]
        spec = geom.rand_cart_spec(rng, dim, nmin=2, nmax=nmax)
        dens = float(rng.uniform(0.1, 0.85))
        mask = rng.random(spec["shape"]) < dens
        return {"grid": spec, "mask": mask.astype(int).tolist()}
    if kind == "rand-cyl":
        spec = geom.rand_cyl_spec(rng, nmin=2, nmax=12)
        if rng.random() < 0.3:
            return {"grid": spec, "mask": _head_tail(rng, spec).astype(int).tolist()}
        dens = float(rng.uniform(0.1, 0.85))
        mask = rng.random(spec["shape"]) < dens
        if rng.random() < 0.5:
            mask[0, :] |= rng.random(spec["shape"][1]) < 0.5
        return {"grid": spec, "mask": mask.astype(int).tolist()}
    if kind == "struct":
        return _gen_struct(rng)
    raise ValueError(kind)


def _head_tail(rng, spec):
    """Cylindrical image with an on-axis component made of a wide head and a long thin tail; the
    head sits near one end of the box and the tail runs across the (periodic) boundary for more
    than half a period, while the whole component stays shorter than the box (no winding)."""
    nr, nz = spec["shape"]
    mask = np.zeros((nr, nz), bool)
    total = int(rng.integers(max(2, nz // 2 + 1), nz)) if nz > 3 else max(1, nz - 1)  # z extent in cells, < nz
    head = int(rng.integers(1, max(2, total // 4 + 1)))
    wide = nr if rng.random() < 0.6 else int(rng.integers(2, nr + 1))
    if rng.random() < 0.6:
        z0 = nz - head - int(rng.integers(0, 3))  # head ends at (or just below) the upper boundary
    else:
        z0 = int(rng.integers(nz))
    for k in range(total):
        z = (z0 + k) % nz if spec["periodic_z"] else min(max(z0, 0) + k, nz - 1)
        mask[: (wide if k < head else 1), z] = True
    if rng.random() < 0.5:
        mask = mask[:, ::-1].copy()  # head at the other end
    if rng.random() < 0.3:  # a second, small on-axis blob somewhere else
        free = [z for z in range(nz) if not mask[0, z] and not mask[0, (z - 1) % nz] and not mask[0, (z + 1) % nz]]
        if free:
            mask[0, int(rng.choice(free))] = True
    return mask


def _gen_struct(rng):
    fam = "cyl" if rng.random() < 0.25 else "cart"
    if fam == "cart":
        dim = int(rng.choice([2, 2, 3]))
        spec = geom.rand_cart_spec(rng, dim, nmin=4, nmax=14 if dim == 2 else 7)
    else:
        spec = geom.rand_cyl_spec(rng, nmin=4, nmax=12)
    shape = tuple(spec["shape"])
    mask = np.zeros(shape, bool)
    mode = int(rng.integers(0, 8))
    idx = np.indices(shape)
    if fam == "cyl" and rng.random() < 0.35:
        return {"grid": spec, "mask": _head_tail(rng, spec).astype(int).tolist()}
    if mode == 0:  # U / S shapes: random walk of a thick path that may cross boundaries
        pos = np.array([int(rng.integers(n)) for n in shape])
        for _ in range(int(rng.integers(5, 40))):
            mask[tuple(pos % np.array(shape))] = True
            a = int(rng.integers(len(shape)))
            pos[a] += int(rng.choice([-1, 1]))
    elif mode == 1:  # stripes (winding) along a random axis
        a = int(rng.integers(len(shape)))
        other = (a + 1) % len(shape)
        period = int(rng.integers(2, 5))
        mask = (idx[other] % period) < int(rng.integers(1, period))
    elif mode == 2:  # checker board
        mask = (sum(idx) % 2) == int(rng.integers(2))
    elif mode == 3:  # full or nearly full box
        mask[...] = True
        for _ in range(int(rng.integers(0, 4))):
            mask[tuple(int(rng.integers(n)) for n in shape)] = False
    elif mode == 4:  # ring / hollow box around a centre pixel
        c = [int(rng.integers(n)) for n in shape]
        r = int(rng.integers(1, 3))
        d = np.max([np.minimum(np.abs(idx[a] - c[a]), shape[a] - np.abs(idx[a] - c[a]))
                    if _per(spec, a) else np.abs(idx[a] - c[a]) for a in range(len(shape))], axis=0)
        mask = (d == r) | (d == 0)
    elif mode == 5:  # touching / nearby discs crossing corners
        for _ in range(int(rng.integers(2, 5))):
            c = [rng.uniform(-1, n + 1) for n in shape]
            r = rng.uniform(0.8, 3.0)
            d2 = 0
            for a in range(len(shape)):
                dd = np.abs(idx[a] + 0.5 - c[a])
                if _per(spec, a):
                    dd = np.minimum(dd, shape[a] - dd)
                d2 = d2 + dd ** 2
            mask |= d2 < r * r
    elif mode == 6:  # salt noise plus one blob on a boundary
        mask = rng.random(shape) < 0.08
        sl = tuple(slice(0, int(rng.integers(1, 3))) for _ in shape)
        mask[sl] = True
        sl2 = tuple(slice(-int(rng.integers(1, 3)), None) for _ in shape)
        mask[sl2] = True
    else:  # spiral-like arm: diagonal band crossing boundaries several times
        k = int(rng.integers(1, 3))
        a, b = 0, len(shape) - 1
        mask = ((idx[a] * k + idx[b]) % max(shape[b], 2)) < int(rng.integers(1, 3))
        if rng.random() < 0.5:
            mask &= idx[a] < max(1, shape[a] - 1)
    return {"grid": spec, "mask": np.asarray(mask, bool).astype(int).tolist()}


def _per(spec, a):
    if spec["family"] == "cart":
        return spec["periodic"][a]
    return a == 1 and spec["periodic_z"]


def run(case, rec):
    spec = case["grid"]
    if "bits" in case:
        shape = tuple(spec["shape"])
        ncell = int(np.prod(shape))
        mask = np.array([(case["bits"] >> k) & 1 for k in range(ncell)], dtype=bool).reshape(shape)
    else:
        mask = np.asarray(case["mask"], bool)
    judge(spec, mask, rec)
    rec.count(f"family:{geom.grid_label(spec)}")


def run_shard(spec, rec):
    if spec["kind"] == "suite":
        common.run_suite(ID, rec)
        return
    from droplets import emulsions
    from droplets import image_analysis as ia

    rec.watch(ia._locate_droplets_in_mask_cartesian, ia._locate_droplets_in_mask_cylindrical_single,
              ia._locate_droplets_in_mask_cylindrical, ia.locate_droplets_in_mask,
              emulsions.Emulsion.remove_overlapping)
    if spec["kind"] == "exhaustive":
        run_exhaustive(spec, rec)
    elif spec["kind"] == "exgroup":
        for s in spec["members"]:
            run_exhaustive(s, rec)
    else:
        if spec["kind"] == "struct" and spec["start"] == 0:
            sentinels(rec)
        common.run_generated(spec, rec, gen, run, ID)


def sentinels(rec):
    cart = {"family": "cart", "bounds": [[0, 6], [0, 6]], "shape": [6, 6], "periodic": [True, True]}
    u = np.zeros((6, 6), int)
    u[0, 1:5] = 1
    u[5, 1] = 1
    u[5, 4] = 1  # U-shape across the x boundary (3 pieces)
    regress = [
        {"grid": cart, "mask": u.tolist()},
        # D4: only off-axis objects on a cylindrical grid
        {"grid": {"family": "cyl", "radius": 4.0, "bounds_z": [0.0, 6.0], "shape": [4, 6],
                  "periodic_z": False}, "mask": [[0] * 6, [0, 1, 1, 0, 0, 0], [0] * 6, [0] * 6]},
        # D5b: symmetric blob centred exactly on the periodic z boundary
        {"grid": {"family": "cyl", "radius": 3.0, "bounds_z": [0.0, 6.0], "shape": [3, 6],
                  "periodic_z": True}, "mask": [[1, 0, 0, 0, 0, 1], [0] * 6, [0] * 6]},
        {"grid": {"family": "cyl", "radius": 2.1, "bounds_z": [-1.1, 5.4], "shape": [3, 5],
                  "periodic_z": True}, "mask": [[1, 1, 0, 1, 1], [1, 0, 0, 0, 1], [0] * 5]},
    ]
    for c in regress:
        c["kind"] = "sentinel"
        with rec.case("sentinel", c):
            run(c, rec)
    for key, what in KNOWN.items():
        with rec.sentinel(key, what):
            with rec.case("sentinel-known", {"which": key}):
                _known_sentinel(rec, key)


def _known_sentinel(rec, which):
    """Deterministic witnesses of the two known findings on periodic cylindrical grids."""
    from droplets.image_analysis import locate_droplets_in_mask
    from pde import ScalarField

    if which == "cyl-periodic-spanning-fallback":
        # a ring at r=2 winds around z and is attached to the axis at z=2; a second on-axis
        # component {(0,5),(0,0)} straddles the periodic boundary.  The padded-image search
        # signals a "spanning droplet" and falls back to a non-periodic analysis, which
        # reports the straddling component as two droplets.
        spec = {"family": "cyl", "radius": 2.1, "bounds_z": [-1.1, 6.7], "shape": [3, 6],
                "periodic_z": True}
        m = np.zeros((3, 6), bool)
        m[2, :] = True
        m[1, 2] = m[0, 2] = True
        m[0, 5] = m[0, 0] = True
    else:
        # two flat on-axis discs next to the two ends of the box: as equal-volume spheres they
        # overlap only through the periodic boundary, which the Euclidean overlap removal
        # (and py-pde 0.58's cylindrical metric) does not see
        spec = {"family": "cyl", "radius": 4.0, "bounds_z": [0.0, 8.0], "shape": [4, 8],
                "periodic_z": True}
        m = np.zeros((4, 8), bool)
        m[:, 1] = True
        m[:3, 6] = True
    comps, _ = expected_components(spec, m)
    if which == "cyl-periodic-spanning-fallback" and not d17_predicate(spec, comps, m):
        rec.harness_error("d17 sentinel image does not satisfy its predicate")
        return
    call = common.monitored(rec, "locate_droplets_in_mask", locate_droplets_in_mask,
                            ScalarField(geom.make_grid(spec), m, dtype=bool))
    if not rec.check(call.ok, "no-exception", f"raised {call.exc!r}"):
        return
    check_result(spec, m, list(call.result), rec, label=f"[sentinel {which}] ", ignore_known=True)


KNOWN = {
    "cyl-periodic-spanning-fallback":
        "periodic cylindrical grid: an on-axis cluster spanning the box in z triggers a global "
        "non-periodic fallback that splits boundary-straddling components",
    "cyl-periodic-overlap-across-boundary":
        "periodic cylindrical grid: equal-volume spheres overlapping only across the periodic z "
        "boundary are both returned (overlap removal is Euclidean)",
}


def replay(v, rec):
    case = v["case"]
    with rec.case(v["kind"], case):
        if v["kind"] == "sentinel-known":
            with rec.sentinel(case["which"], KNOWN[case["which"]]):
                _known_sentinel(rec, case["which"])
        else:
            run(case, rec)
