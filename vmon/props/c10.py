"""C10 - overlap removal leaves a separated subset; distance queries agree.

Monitor: ``icontract.snapshot``/``icontract.ensure`` pair bound onto
``Emulsion.remove_overlapping`` (object identities and parameter bytes before, survivors
after), post-conditions on ``get_pairwise_distances``, ``get_neighbor_distances``,
``SphericalDroplet.overlaps`` and ``Emulsion.from_random``.  Oracle: own minimum-image
metric; the removal clauses are checked as stated (no tie-breaking rule is assumed).
"""

from __future__ import annotations

import itertools
import math

import numpy as np

from ..oracles import geom
from . import common

ID = "C10"
RULE = (
    "cases = (emulsion, d_min, optional periodic Cartesian grid): complete enumeration of all "
    "placements of <=4 droplets [quick: <=3 on the 3x3 lattice] with radii in {0.3,0.45,0.8} "
    "(ties) on a 1-D ring of 6 sites and a 3x3 lattice x d_min in {0,-0.4,0.3,1} x {no grid, "
    "periodic grid}, member order shuffled; random emulsions d=1..3 with 0..8 droplets, chains "
    "of overlaps, identical droplets, zero radii, polydisperse radii; from_random over grids and "
    "bound lists with scalar and ranged radii and 3 droplet classes. Non-trivial = at least one "
    "droplet is removed, or >=3 droplets for the query clauses. Distinct = digest of the case."
)
ASSUMPTIONS = [
    "surface distances within 1e-9 of d_min (or of 0 for overlaps) are knife-edges: cases regenerated / clause skipped",
    "no tie-breaking rule is assumed: a removed droplet only needs a droplet at least as large within d_min",
    "nearest-neighbour surface distances are not demanded when three or more droplets share one position exactly",
]
REQUIRED_MONITORS = {"contract:remove_overlapping": 500, "post:separated": 500, "post:pairwise-matrix": 500,
                     "post:neighbors": 200, "post:from-random-inside": 50}
MIN_NONTRIVIAL = 100
RADII = [0.3, 0.45, 0.8]
DMINS = [0.0, -0.4, 0.3, 1.0]


class ContractBroken(Exception):
    pass


def _lattices(tier):
    ring = ("ring6", [[i + 0.5] for i in range(6)], [[0.0, 6.0]], 4)
    rect = ("rect3x3", [[i + 0.5, j + 0.5] for i in range(3) for j in range(3)], [[0.0, 3.0], [0.0, 3.0]],
            3 if tier == "quick" else 4)
    return [ring, rect]


def _placements(nsites, kmax):
    for k in range(kmax + 1):
        for sites in itertools.combinations(range(nsites), k):
            for radii in itertools.product(range(len(RADII)), repeat=k):
                yield sites, radii


def plan(tier, seed):
    out = []
    chunk = 400 if tier == "quick" else 1500
    for name, sites, bounds, kmax in _lattices(tier):
        total = sum(math.comb(len(sites), k) * 3 ** k for k in range(kmax + 1))
        for start in range(0, total, chunk):
            out.append({"name": f"lattice-{name}#{start}", "kind": "lattice", "lattice": name, "start": start,
                        "n": min(chunk, total - start), "total": total, "seed": seed, "tier": tier})
    if tier == "quick":
        kinds = {"random": 8000, "from_random": 600, "exact": 2500, "crowd": 4}
        per = 1000
    else:
        kinds = {"random": 600000, "from_random": 20000, "exact": 150000, "crowd": 24}
        per = 15000
    return out + common.shards(kinds, per_shard=per, tier=tier, seed=seed)


# ------------------------------------------------------------------ contract on remove_overlapping

_state = {"rec": None, "installed": False, "exact": False}


def _members(self):
    return [(d, common.droplet_bytes(d)) for d in self]


def _post_remove(self, min_distance, grid, OLD):
    rec = _state["rec"]
    if rec is None:
        return True
    rec.hit("contract:remove_overlapping")
    try:
        judge_removal(OLD.members, list(self), min_distance, grid, rec)
    except Exception as e:  # noqa: BLE001
        rec.harness_error("contract remove_overlapping", e)
    return True


def install_contract(rec):
    import icontract
    from droplets import emulsions

    _state["rec"] = rec
    if not _state["installed"]:
        f = emulsions.Emulsion.remove_overlapping
        f = icontract.ensure(_post_remove, error=ContractBroken)(f)
        f = icontract.snapshot(_members, name="members")(f)
        emulsions.Emulsion.remove_overlapping = f
        _state["installed"] = True


def _periods(grid):
    if grid is None:
        return None
    b = grid.axes_bounds
    return [float(b[a][1] - b[a][0]) if grid.periodic[a] else None for a in range(grid.num_axes)]


def _sd(p, r1, q, r2, periods):
    per = periods if periods is not None else [None] * len(p)
    return geom.distance(p, q, per) - r1 - r2


def judge_removal(before, after, d_min, grid, rec):
    """Clauses of the removal part, evaluated on one observed call."""
    periods = _periods(grid)
    objs = [d for d, _ in before]
    pos = [np.array(np.frombuffer(b.split(b"|", 2)[2], dtype=float)) for _, b in before]
    info = [(np.asarray(d.position, float).copy(), float(d.radius)) for d in objs]
    # knife-edge guard on the *input* configuration
    exact = _state["exact"]  # exact arithmetic (dyadic lattice data): ties are decided, not skipped
    tol = 0.0 if exact else 1e-9
    for (p, r1), (q, r2) in itertools.combinations(info, 2):
        gap = abs(_sd(p, r1, q, r2, periods) - d_min)
        if gap <= 1e-9 and not (exact and gap == 0.0):
            rec.count("knife_edge_call_skipped")
            return
        if exact and gap == 0.0:
            rec.count("exact_ties_judged")
    ids_before = [id(d) for d in objs]
    ids_after = [id(d) for d in after]
    label = (f"d_min={d_min} grid={'periodic' if grid is not None else None} droplets="
             f"{[(p.tolist(), r) for p, r in info]} survivors={[ids_before.index(i) if i in ids_before else None for i in ids_after]}")
    # survivors are the original objects in original order, unchanged
    idx = [ids_before.index(i) if i in ids_before else None for i in ids_after]
    ok = rec.check(None not in idx and idx == sorted(idx) and len(set(idx)) == len(idx), "original-objects",
                   f"survivors are not the original objects in their original order; {label}")
    if not ok:
        return
    rec.check(all(common.droplet_bytes(objs[i]) == before[i][1] for i in idx), "unmodified",
              f"a surviving droplet was modified; {label}")
    surv = set(idx)
    # separated
    for i, j in itertools.combinations(sorted(surv), 2):
        sd = _sd(info[i][0], info[i][1], info[j][0], info[j][1], periods)
        rec.check(sd >= d_min - tol, "separated",
                  f"surviving droplets {i},{j} are only {sd} apart (surface to surface); {label}")
    if len(surv) < 2:
        rec.hit("post:separated")
    # removed ones were too close to one at least as large
    for i in range(len(objs)):
        if i in surv:
            continue
        why = any(j != i and info[j][1] >= info[i][1] and
                  (_sd(info[i][0], info[i][1], info[j][0], info[j][1], periods) < d_min + tol)
                  for j in range(len(objs)))
        rec.check(why, "removed-justified",
                  f"droplet {i} was removed although no droplet at least as large is within d_min of it; {label}")
    # a strictly largest droplet survives
    if objs:
        radii = [r for _, r in info]
        m = max(radii)
        if radii.count(m) == 1:
            rec.check(radii.index(m) in surv, "largest-survives", f"the strictly largest droplet was removed; {label}")
    rec.note("removed_any", True) if len(surv) < len(objs) else None
    if len(surv) < len(objs):
        rec.count("calls_removing_droplets")


# ------------------------------------------------------------------ query post-conditions


def judge_queries(em, grid, rec, label, order=(False, True)):
    periods = _periods(grid)
    n = len(em)
    info = [(np.asarray(d.position, float).copy(), float(d.radius)) for d in em]
    per = periods if periods is not None else ([None] * len(info[0][0]) if info else [])
    scale = 1.0 + max([np.abs(p).max() for p, _ in info], default=0.0)
    for sub in order:
        call = common.monitored(rec, "get_pairwise_distances", em.get_pairwise_distances, subtract_radius=sub, grid=grid)
        if not rec.check(call.ok, "no-exception", f"get_pairwise_distances raised {call.exc!r}; {label}"):
            continue
        M = np.array(call.result, float, copy=True)
        if isinstance(call.result, np.ndarray) and call.result.flags.writeable and call.result.size:
            # the returned matrix belongs to the caller: overwriting it must not change the next answer
            call.result[...] = -5.0
            again = common.monitored(rec, "get_pairwise_distances", em.get_pairwise_distances, subtract_radius=sub, grid=grid)
            rec.check(again.ok and np.array_equal(np.asarray(again.result, float), M), "pairwise-matrix",
                      f"pairwise distances (subtract_radius={sub}) changed after the caller had overwritten the matrix "
                      f"returned by the previous call; {label}")
        exp = np.zeros((n, n))
        for i in range(n):
            for j in range(n):
                if i != j:
                    exp[i, j] = geom.distance(info[i][0], info[j][0], per) - (info[i][1] + info[j][1] if sub else 0.0)
        ok = M.shape == (n, n) and bool(np.allclose(M, exp, rtol=0, atol=1e-11 * scale))
        sym = M.shape == (n, n) and bool(np.array_equal(M, M.T)) and bool(np.all(np.diag(M) == 0))
        rec.check(ok and sym, "pairwise-matrix",
                  f"pairwise distances (subtract_radius={sub}) differ from the periodic centre distances or are "
                  f"not symmetric with zero diagonal: got {M.tolist()} expected {exp.tolist()}; {label}")
    # overlaps <=> surface distance < 0
    for i, j in itertools.combinations(range(n), 2):
        sd = geom.distance(info[i][0], info[j][0], per) - info[i][1] - info[j][1]
        if abs(sd) <= 1e-9 and not (_state["exact"] and sd == 0.0):
            continue
        c = common.monitored(rec, "overlaps", em[i].overlaps, em[j], grid)
        c2 = common.monitored(rec, "overlaps", em[j].overlaps, em[i], grid)
        rec.check(c.ok and c2.ok and bool(c.result) == (sd < 0) and bool(c2.result) == (sd < 0), "overlaps",
                  f"overlaps({i},{j}) = {c.result if c.ok else c.exc!r} but surface distance = {sd}; {label}")
    # nearest neighbours (Euclidean; the method takes no grid)
    if grid is None:
        same_layout = len({d.data.dtype for d in em}) <= 1 and len({type(d) for d in em}) <= 1
        if same_layout:
            for sub in (False, True):
                call = common.monitored(rec, "get_neighbor_distances", em.get_neighbor_distances, subtract_radius=sub)
                if not rec.check(call.ok, "no-exception", f"get_neighbor_distances raised {call.exc!r}; {label}"):
                    continue
                res = np.asarray(call.result, float)
                if n == 0:
                    rec.check(res.shape == (0,), "neighbors", f"empty emulsion gave {res!r}")
                    continue
                if n == 1:
                    rec.check(res.shape == (1,) and bool(np.isnan(res[0])), "neighbors", f"single droplet gave {res!r}")
                    continue
                D = np.array([[np.linalg.norm(info[i][0] - info[j][0]) if i != j else np.inf for j in range(n)]
                              for i in range(n)])
                if not sub:
                    exp = D.min(axis=1)
                    rec.check(res.shape == (n,) and bool(np.allclose(res, exp, rtol=0, atol=1e-11 * scale)), "neighbors",
                              f"neighbor distances {res.tolist()} != row minima {exp.tolist()}; {label}")
                else:
                    # k-d tree hits are unordered among exactly coincident centres: with two droplets on one
                    # spot the two nearest hits are that pair whatever their order, with three or more the
                    # outcome is not determined - those emulsions are skipped
                    coincide = [sum(1 for j in range(n) if np.linalg.norm(info[i][0] - info[j][0]) <= 1e-9) for i in range(n)]
                    if max(coincide) >= 3:
                        rec.count("neighbors_surface_skipped_three_coincident_positions")
                        continue
                    if max(coincide) == 2:
                        rec.count("neighbors_surface_with_concentric_pair")
                    okall = res.shape == (n,)
                    if okall:
                        for i in range(n):
                            dmin = D[i].min()
                            cands = [D[i, j] - info[i][1] - info[j][1] for j in range(n) if j != i and D[i, j] <= dmin + 1e-9 * scale]
                            if not any(abs(res[i] - c) <= 1e-11 * scale for c in cands):
                                okall = False
                    rec.check(okall, "neighbors",
                              f"surface neighbor distances {res.tolist()} are not (distance to a nearest centre - both radii); {label}")


# ------------------------------------------------------------------ cases


def build(case):
    import droplets

    name = case.get("cls", "SphericalDroplet")
    dim = len(case["droplets"][0]) - 1 if case["droplets"] else 0
    if name in ("mixed", "perturbed"):
        # emulsions mixing droplet classes (spherical next to diffuse), and perturbed droplets: distances, overlaps and
        # sizes are defined by position and radius for every class.  All perturbed members carry the same small
        # amplitudes, so "larger" means the same whether read as radius or as volume.
        from droplets import droplets as dmod

        em = droplets.Emulsion()
        for i, r in enumerate(case["droplets"]):
            pos, R = np.asarray(r[:-1], float), float(r[-1])
            if name == "mixed":
                d = dmod.SphericalDroplet(pos, R) if i % 2 == 0 else dmod.DiffuseDroplet(pos, R, 0.5)
            elif dim == 2:
                d = dmod.PerturbedDroplet2D(pos, R, 0.5, [0.1, -0.05])
            elif dim == 3 and case.get("axisym"):
                d = dmod.PerturbedDroplet3DAxisSym(np.array([0.0, 0.0, pos[2]]), R, 0.5, [0.1, -0.05])
            elif dim == 3:
                d = dmod.PerturbedDroplet3D(pos, R, 0.5, [0.1, 0.0, -0.05])
            else:
                d = dmod.DiffuseDroplet(pos, R, 0.5)
            em.append(d, copy=False)
        return em
    cls = getattr(droplets, name)
    em = droplets.Emulsion()
    for r in case["droplets"]:
        if cls is droplets.SphericalDroplet:
            em.append(cls(np.asarray(r[:-1], float), float(r[-1])), copy=False)
        else:
            em.append(cls(np.asarray(r[:-1], float), float(r[-1]), 0.5), copy=False)
    return em


def run(case, rec):
    _state["exact"] = bool(case.get("exact"))
    try:
        _run(case, rec)
    finally:
        _state["exact"] = False


def _run(case, rec):
    grid = geom.make_grid(case["grid"]) if case.get("grid") else None
    em = build(case)
    d_min = case["d_min"]
    label = f"d_min={d_min} grid={geom.grid_label(case['grid']) if case.get('grid') else None} droplets={case['droplets']}"
    judge_queries(em, grid, rec, label)
    n0 = len(em)
    before_hits = rec.monitors.get("contract:remove_overlapping", 0)
    call = common.monitored(rec, "remove_overlapping", em.remove_overlapping, d_min, grid)
    if not rec.check(call.ok, "no-exception", f"remove_overlapping raised {common.exc_text(call.exc) if call.exc else ''}; {label}"):
        rec.evaluated(nontrivial=False)
        return
    if rec.monitors.get("contract:remove_overlapping", 0) == before_hits:
        rec.count("contract_bypassed")
    n1 = len(em)
    snap = [id(d) for d in em]
    call2 = common.monitored(rec, "remove_overlapping", em.remove_overlapping, d_min, grid)
    rec.check(call2.ok and [id(d) for d in em] == snap, "idempotent",
              f"a second call removed {n1 - len(em)} more droplets; {label}")
    # the queries once more after the removal calls: earlier calls must not influence later answers
    judge_queries(em, grid, rec, label + " [queried again after remove_overlapping]", order=(True, False))
    if len(em) >= 2:
        # ... and after a droplet was moved in place (same objects, new configuration)
        shift = np.zeros(len(em[0].position))
        shift[0] = 0.37 if not case.get("exact") else 0.5
        em[len(em) // 2].position = np.asarray(em[len(em) // 2].position, float) + shift
        _state["exact"] = False  # the moved configuration is judged with the ordinary knife-edge guard
        judge_queries(em, grid, rec, label + " [queried again after moving one droplet in place]")
        _state["exact"] = bool(case.get("exact"))
    rec.evaluated(nontrivial=(n1 < n0) or n0 >= 3)
    rec.count(f"n:{min(n0, 8)}")
    rec.count(f"grid:{bool(grid)}|dim:{len(case['droplets'][0]) - 1 if case['droplets'] else 0}")


def run_lattice(spec, rec):
    lat = {name: (sites, bounds, kmax) for name, sites, bounds, kmax in _lattices(spec["tier"])}
    sites, bounds, kmax = lat[spec["lattice"]]
    dim = len(bounds)
    gspec = {"family": "cart", "bounds": bounds, "shape": [int(b[1]) * 2 for b in bounds], "periodic": [True] * dim}
    rec.space(f"placements:{spec['lattice']}", spec["total"], 0)
    done = 0
    from .. import core

    for n, (ss, rr) in enumerate(_placements(len(sites), kmax)):
        if n < spec["start"]:
            continue
        if n >= spec["start"] + spec["n"]:
            break
        rng = core.sub_rng(spec["seed"], ID, spec["lattice"], n)
        drops = [list(sites[s]) + [RADII[r]] for s, r in zip(ss, rr)]
        rng.shuffle(drops)
        for d_min in DMINS:
            for g in (None, gspec):
                case = {"kind": "lattice", "droplets": drops, "d_min": d_min, "grid": g}
                with rec.case("lattice", case):
                    try:
                        run(case, rec)
                    except Exception as e:  # noqa: BLE001
                        rec.harness_error("lattice", e)
        done += 1
    rec.space(f"placements:{spec['lattice']}", spec["total"], done)


def gen(rng, kind, tier):
    if kind == "exact":
        # dyadic lattice data: every distance that matters is computed exactly, so droplets that
        # exactly touch (surface distance == d_min) are decided by the strict wording of the statement
        dim = int(rng.choice([1, 2, 2, 3]))
        n = int(rng.integers(3, 8))
        lo = float(rng.integers(-4, 5))
        k = int(rng.integers(2, 7))
        sites = set()
        while len(sites) < k:
            sites.add(tuple(float(lo + rng.integers(0, 2 * n)) / 1.0 * 0.5 + 0.0 for _ in range(dim)))
        drops = [list(p) + [float(rng.choice([0.25, 0.5, 0.75, 1.0, 0.0]))] for p in sorted(sites)]
        rng.shuffle(drops)
        g = None
        if rng.random() < 0.5:
            per = [bool(rng.integers(0, 2)) for _ in range(dim)]
            g = {"family": "cart", "bounds": [[lo * 0.5, lo * 0.5 + float(n)]] * dim, "shape": [2 * n] * dim, "periodic": per}
        return {"droplets": drops, "d_min": float(rng.choice([0.0, 0.0, 0.25, -0.25, 0.5, 1.0])), "grid": g, "exact": True,
                "cls": str(rng.choice(["SphericalDroplet", "DiffuseDroplet"]))}
    if kind == "crowd":
        # a crowd: hundreds of droplets on a jittered lattice whose neighbours are closer than the minimal distance
        dim = 2
        nx = int(rng.integers(17, 20))
        a = float(rng.uniform(2.2, 3.0))
        lo = float(rng.choice([0.0, -40.0, 1000.0]))
        drops = [[lo + a * i + float(rng.uniform(-0.1, 0.1)), lo + a * j + float(rng.uniform(-0.1, 0.1)), float(rng.uniform(0.85, 1.0))]
                 for i in range(nx) for j in range(nx)]
        order = rng.permutation(len(drops))
        drops = [drops[int(i)] for i in order]
        return {"droplets": drops, "d_min": float(rng.choice([1.0, 0.8, 0.6, 0.0])), "grid": None, "cls": "SphericalDroplet", "crowd": True}
    if kind == "random":
        dim = int(rng.choice([1, 2, 2, 3]))
        n = int(rng.integers(0, 9))
        L = float(rng.uniform(3, 12))
        mode = int(rng.integers(0, 6))
        lo = float(rng.choice([0.0, 0.0, -L / 2, 10.0, float(np.round(rng.uniform(-5, 5), 2)), 2.0 ** 20, -(2.0 ** 24)]))  # box origin (also far away)
        drops = []
        for i in range(n):
            if mode == 0 and drops:  # chain of overlaps
                p = np.asarray(drops[-1][:-1]) + rng.normal(0, 0.6, dim)
            elif mode == 1 and drops and rng.random() < 0.4:  # identical droplet
                drops.append(list(drops[-1]))
                continue
            elif mode == 5 and drops and i % 2 == 1 and rng.random() < 0.6:  # concentric pair, different radii
                drops.append(list(drops[-1][:-1]) + [float(rng.uniform(0.1, 1.5))])
                continue
            else:
                p = lo + rng.uniform(0, L, dim)
            if mode == 2:  # large droplets with tiny satellites
                R = float(rng.choice([0.05, 0.08, 1.5, 2.0])) * float(rng.uniform(0.9, 1.1))
            else:
                R = 0.0 if rng.random() < 0.05 else float(rng.uniform(0.1, 1.5))
            drops.append([float(x) for x in p] + [R])
        if mode == 3:
            drops = [d[:-1] + [float(rng.choice(RADII))] for d in drops]  # tied radii
        g = None
        if rng.random() < 0.5:
            per = [bool(rng.integers(0, 2)) for _ in range(dim)]
            h = rng.uniform(0.3, 2.0, dim)
            shape = [max(2, int(L / h[a])) for a in range(dim)]
            g = {"family": "cart", "bounds": [[lo, lo + float(np.round(L / shape[a], 4) * shape[a])] for a in range(dim)],
                 "shape": shape, "periodic": per}
        d_min = float(rng.choice([0.0, 0.0, -0.4, 0.3, 1.0, float(rng.uniform(-1, 2))]))
        case = {"droplets": drops, "d_min": d_min, "grid": g,
                "cls": str(rng.choice(["SphericalDroplet", "SphericalDroplet", "DiffuseDroplet", "mixed", "perturbed"]))}
        if case["cls"] == "perturbed" and dim == 3 and rng.random() < 0.5:
            case["axisym"] = True
            case["droplets"] = [[0.0, 0.0] + d[2:] for d in drops]
            drops = case["droplets"]
        # knife-edge regeneration
        per = geom.cart_periodicity(g) if g else [None] * dim
        for a, b in itertools.combinations(drops, 2):
            sd = geom.distance(a[:-1], b[:-1], per) - a[-1] - b[-1]
            if abs(sd - d_min) <= 1e-9:
                return None
        if rng.random() < 0.25:
            # round 7 (C10_19, C02_20): the same configuration in another unit of length (nanometres in metres, ...);
            # which droplets are too close and which of two is the smaller one does not depend on the unit
            u = float(10.0 ** int(rng.choice([-9, -8, -6, -3, 3, 6])))
            case["droplets"] = [[float(x * u) for x in d] for d in case["droplets"]]
            case["d_min"] = float(d_min * u)
            case["unit"] = u
            if g is not None:
                g["bounds"] = [[float(b0 * u), float(b1 * u)] for b0, b1 in g["bounds"]]
        return case
    if kind == "from_random":
        dim = int(rng.choice([1, 2, 3]))
        if rng.random() < 0.5:
            region = {"grid": geom.rand_cart_spec(rng, dim, nmin=2, nmax=8)}
        elif rng.random() < 0.5:
            lo = rng.uniform(-5, 5, dim)
            region = {"bounds": [[float(lo[a]), float(lo[a] + rng.uniform(0.5, 10))] for a in range(dim)]}
        else:
            fam = str(rng.choice(["polar", "sph", "cyl"]))
            region = {"grid": geom.rand_sym_spec(rng, fam) if fam != "cyl" else geom.rand_cyl_spec(rng)}
        if rng.random() < 0.5:
            radius = float(rng.uniform(0.05, 1.0))
        else:
            r0 = float(rng.uniform(0.05, 1.0))
            radius = [r0, r0 + float(rng.uniform(0, 1.0))]
        return {"region": region, "num": int(rng.integers(0, 12)), "radius": radius,
                "remove_overlapping": bool(rng.integers(0, 2)),
                "cls": str(rng.choice(["SphericalDroplet", "DiffuseDroplet"])), "seed": int(rng.integers(1 << 30))}
    raise ValueError(kind)


def run_from_random(case, rec):
    import droplets

    reg = case["region"]
    if "grid" in reg:
        grid = geom.make_grid(reg["grid"])
        arg = grid
        dim = grid.dim
    else:
        arg = [tuple(b) for b in reg["bounds"]]
        dim = len(arg)
        grid = None
    cls = getattr(droplets, case["cls"])
    call = common.monitored(rec, "from_random", droplets.Emulsion.from_random, case["num"], arg,
                            tuple(case["radius"]) if isinstance(case["radius"], list) else case["radius"],
                            remove_overlapping=case["remove_overlapping"], droplet_class=cls,
                            rng=np.random.default_rng(case["seed"]))
    label = str(case)
    if not rec.check(call.ok, "no-exception", f"from_random raised {common.exc_text(call.exc) if call.exc else ''}; {label}"):
        rec.evaluated(nontrivial=False)
        return
    em = call.result
    r0, r1 = (case["radius"] if isinstance(case["radius"], list) else [case["radius"]] * 2)
    ok = len(em) <= case["num"] and (case["remove_overlapping"] or len(em) == case["num"])
    for d in em:
        ok = ok and type(d) is cls and r0 - 1e-12 <= d.radius <= r1 + 1e-12 and d.dim == dim
        p = np.asarray(d.position, float)
        if grid is None:
            b = np.asarray(reg["bounds"], float)
            ok = ok and bool(np.all(p >= b[:, 0]) and np.all(p <= b[:, 1]))
        elif reg["grid"]["family"] == "cart":
            b = np.asarray(reg["grid"]["bounds"], float)
            ok = ok and bool(np.all(p >= b[:, 0] - 1e-12) and np.all(p <= b[:, 1] + 1e-12))
        elif reg["grid"]["family"] in ("polar", "sph"):
            ok = ok and float(np.linalg.norm(p)) <= reg["grid"]["radius"] * (1 + 1e-12)
        else:
            z0, z1 = reg["grid"]["bounds_z"]
            ok = ok and float(np.hypot(p[0], p[1])) <= reg["grid"]["radius"] * (1 + 1e-12) and z0 - 1e-12 <= p[2] <= z1 + 1e-12
    rec.check(ok, "from-random-inside",
              f"random emulsion leaves the requested region/radius range/class/count: "
              f"{[(list(map(float, d.position)), d.radius) for d in em][:6]}; {label}")
    if case["remove_overlapping"]:
        for a, b in itertools.combinations(list(em), 2):
            sd = float(np.linalg.norm(np.asarray(a.position) - np.asarray(b.position))) - a.radius - b.radius
            rec.check(sd >= -1e-9, "from-random-separated", f"overlapping droplets in a random emulsion (surface distance {sd}); {label}")
    rec.evaluated(nontrivial=len(em) >= 1)


def run_any(case, rec):
    if case["kind"] == "from_random":
        run_from_random(case, rec)
    else:
        run(case, rec)


def run_shard(spec, rec):
    from droplets import droplets as dmod
    from droplets import emulsions

    install_contract(rec)
    rec.watch(emulsions.Emulsion.get_pairwise_distances, emulsions.Emulsion.get_neighbor_distances,
              emulsions.Emulsion.from_random, dmod.SphericalDroplet.overlaps)
    if spec["kind"] == "lattice":
        run_lattice(spec, rec)
    else:
        common.run_generated(spec, rec, gen, run_any, ID)


def replay(v, rec):
    install_contract(rec)
    with rec.case(v["kind"], v["case"]):
        run_any(v["case"], rec)
