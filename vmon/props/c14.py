"""C14 - tracking during a simulation equals analysing the stored fields afterwards.

Monitors: wrappers on both ``handle`` methods (call event: field digest, t), on
``image_analysis.locate_droplets`` / ``get_length_scale`` as resolved by the trackers
(option forwarding is observed directly) and on ``EmulsionTimeCourse.append``.  The recorded
history is compared with ``EmulsionTimeCourse.from_storage`` over the *same* fields and with
the files written by ``finalize()``.
"""

from __future__ import annotations

import json
import math
import os
from pathlib import Path

import numpy as np

from .. import monitors
from ..oracles import geom
from . import common
from .c08 import snap
from .c09 import field_desc, locate_opts, make_field, one_pixel_type

ID = "C14"
RULE = (
    "direct cases = 1..12 frames (fields: noise, constants, binary, smooth, rescaled, rendered "
    "emulsions - hence also frames without droplets) on 1-D/2-D Cartesian grids (length scales: "
    "also non-Cartesian grids and constants, where the analysis raises) with random settings "
    "(threshold rule/number, minimal radius, refine, refine_args, modes in 2-D), source None / "
    "index into a FieldCollection / callable, pre-filled time course, times increasing, passing "
    "through 0, or restarting (one tracker used for two runs); solver cases = Cahn-Hilliard and "
    "diffusion runs (numpy backend, 16^2..32^2 cells, 5..15 interrupts) with [DropletTracker, "
    "storage tracker, LengthScaleTracker] seeing identical fields. Non-trivial = >=2 frames of "
    "which at least one has droplets. Distinct = digest of the case."
)
ASSUMPTIONS = [
    "py-pde's solver, MemoryStorage and extract_field are trusted to hand identical fields to all trackers",
    "frames are compared by droplet class and parameter bytes, times by exact value",
]
REQUIRED_MONITORS = {"call:DropletTracker.handle": 100, "post:equals-offline": 40,
                     "post:file-roundtrip": 40, "post:length-scale-recorded": 100}
MIN_NONTRIVIAL = 30


def plan(tier, seed):
    if tier == "quick":
        kinds = {"direct": 260, "lengthscale": 260, "solver": 16}
        per = 40
    else:
        kinds = {"direct": 9000, "lengthscale": 9000, "solver": 400}
        per = 300
    sh = common.shards({k: v for k, v in kinds.items() if k != "solver"}, per_shard=per, tier=tier, seed=seed, timeout_s=3000)
    sh += common.shards({"solver": kinds["solver"]}, per_shard=max(2, per // 20), tier=tier, seed=seed, timeout_s=3000)
    # very long simulations: thousands of recorded frames (one case in the quick tier)
    sh += common.shards({"long": 1 if tier == "quick" else 6}, per_shard=1, tier=tier, seed=seed, timeout_s=3000)
    # settings or frames for which the analysis itself fails: tracker and offline analysis fail alike
    sh += common.shards({"failing": 8 if tier == "quick" else 200}, per_shard=8 if tier == "quick" else 50, tier=tier, seed=seed, timeout_s=3000)
    return sh


def _times(rng, n):
    mode = int(rng.integers(0, 5))
    if mode == 0:
        return [float(i) for i in range(n)]
    if mode == 1:
        return [float(x) for x in np.cumsum(rng.uniform(0.05, 2.0, n))]
    if mode == 2:  # passes through exactly 0 later on
        k = int(rng.integers(0, n))
        step = float(rng.choice([0.5, 0.75, 1.5, 3.0]))
        return [(i - k) * step for i in range(n)]
    if mode == 3:  # one tracker reused for two consecutive runs: times restart
        m = max(1, n // 2)
        return [float(i) for i in range(m)] + [float(i) for i in range(n - m)]
    return [float(x) for x in np.cumsum(rng.uniform(0.05, 2.0, n)) - 7.3]


def gen(rng, kind, tier):
    if kind == "direct":
        dim = int(rng.choice([1, 2, 2]))
        spec = geom.rand_cart_spec(rng, dim, nmin=4, nmax=14 if dim == 2 else 30)
        n = int(rng.integers(1, 13))
        opts = locate_opts(rng, dim)
        opts.pop("interface_width", None)
        opts.pop("num_processes", None)
        if rng.random() < 0.2:
            # fields on grids with symmetries (one grid object serves the whole history and the offline analysis)
            fam = str(rng.choice(["polar", "sph", "cyl", "cyl"]))
            spec = geom.rand_sym_spec(rng, fam, nmin=6, nmax=24) if fam != "cyl" else geom.rand_cyl_spec(rng, nmin=5, nmax=12)
            opts["modes"] = 0
        if opts["refine"] and rng.random() < 0.5:
            opts["refine"] = False  # keep most histories cheap
        source = str(rng.choice(["none", "none", "index", "callable", "callable-on-field"]))
        case = {"grid": spec, "fields": one_pixel_type([field_desc(rng, spec) for _ in range(n)]), "times": _times(rng, n),
                "opts": opts, "source": source, "prefilled": bool(rng.random() < 0.2)}
        if rng.random() < 0.08:
            case["offline_processes"] = 2
        if rng.random() < 0.15:
            case["stale_file"] = True
        if rng.random() < 0.06:
            case["no_frames"] = True  # round 7 (C14_20): the run ends before the tracker was handed its first frame
        if opts["refine"] and rng.random() < 0.4:
            case["quick_look"] = [{"tolerance": 0.3}, {"least_squares_params": {"max_nfev": 3}},
                                  {"tolerance": 0.1, "vmin": None, "vmax": None}][int(rng.integers(3))]
        return case
    if kind == "lengthscale":
        fam = str(rng.choice(["cart", "cart", "cart", "polar", "cyl"]))
        if fam == "cart":
            dim = int(rng.choice([1, 2, 2]))
            spec = geom.rand_cart_spec(rng, dim, nmin=4, nmax=16, periodic=[True] * dim if rng.random() < 0.7 else None)
        elif fam == "polar":
            spec = geom.rand_sym_spec(rng, "polar", nmin=4, nmax=12)
        else:
            spec = geom.rand_cyl_spec(rng, nmin=3, nmax=8)
        n = int(rng.integers(1, 9))
        method = str(rng.choice(["structure_factor_mean", "structure_factor_maximum", "droplet_detection", "bogus",
                                 "structure_factor_average", "structure_factor_peak"]))
        return {"grid": spec, "fields": one_pixel_type([field_desc(rng, spec) for _ in range(n)]), "times": _times(rng, n),
                "method": method, "source": str(rng.choice(["none", "index", "callable", "callable-on-field"]))}
    if kind == "failing":
        return {"n": int(rng.integers(16, 25)), "seed": int(rng.integers(1 << 30)), "frames": int(rng.integers(1, 4)),
                "how": str(rng.choice(["method-lm", "nan-pixel", "misspelt-option"]))}
    if kind == "long":
        return {"frames": int(rng.choice([8400, 8400, 9100, 16500])), "cells": int(rng.integers(5, 9)),
                "seed": int(rng.integers(1 << 30)), "minimal_radius": 0.0 if rng.random() < 0.5 else 0.6}
    if kind == "solver":
        n = int(rng.choice([16, 24, 32]))
        return {"pde": str(rng.choice(["cahn-hilliard", "diffusion"])), "n": n,
                "interrupts": int(rng.integers(5, 16)), "seed": int(rng.integers(1 << 30)),
                "opts": {"threshold": str(rng.choice(["0.5", "auto", "mean"])), "minimal_radius": float(rng.choice([0.0, 1.0])),
                         "refine": bool(rng.random() < 0.3), "modes": 0},
                "ls_method": str(rng.choice(["structure_factor_mean", "structure_factor_maximum", "droplet_detection"])),
                "adaptive": bool(rng.random() < 0.5), "files": bool(rng.random() < 0.7), "second_run": bool(rng.random() < 0.4)}
    raise ValueError(kind)


def _wrap_source(field, source):
    """Return (object fed to handle, source argument)."""
    from pde import FieldCollection, ScalarField

    if source == "none":
        return field, None
    other = ScalarField(field.grid, np.full(field.grid.shape, 0.25))
    if source == "index":
        return FieldCollection([other, field]), 1
    if source == "callable-on-field":
        # a callable source applied to a plain scalar state (e.g. "analyse 1 - c"): the tracker is fed the
        # complement and has to analyse what the callable extracts from it
        return ScalarField(field.grid, 1.0 - np.asarray(field.data, float)), _complement
    return FieldCollection([other, field]), (lambda fc: fc[1])


def _complement(state):
    from pde import ScalarField

    return ScalarField(state.grid, 1.0 - np.asarray(state.data, float))


def _same_value(a, b):
    if isinstance(a, float) and isinstance(b, float) and math.isnan(a) and math.isnan(b):
        return True
    return a == b and type(a) is type(b) or (isinstance(a, (int, float)) and isinstance(b, (int, float)) and float(a) == float(b))


def run_direct(case, rec):
    import droplets
    from droplets import image_analysis as ia
    from pde.storage import MemoryStorage

    spec = case["grid"]
    grid = geom.make_grid(spec)
    fields = [make_field(grid, spec, fd) for fd in case["fields"]]
    feeds = [_wrap_source(f, case["source"])[0] for f in fields]
    if case["source"] == "callable-on-field":
        # what the callable extracts from the fed state (1 - (1 - f)) is the field to be analysed
        fields = [_complement(g) for g in feeds]
    times = case["times"]
    o = case["opts"]
    scratch = Path(os.environ.get("VERIF_SCRATCH") or "/tmp")
    path = str(scratch / f"c14_{os.getpid()}.h5")
    pre = None
    if case["prefilled"]:
        pre = droplets.EmulsionTimeCourse([droplets.Emulsion([droplets.SphericalDroplet(np.zeros(grid.dim) + 1.0, 1.0)])], times=[-100.0])
    thr = float(o["threshold"]) if isinstance(o["threshold"], (int, float)) else o["threshold"]
    src_arg = _wrap_source(fields[0], case["source"])[1]
    tracker = droplets.DropletTracker(
        1, filename=path, emulsion_timecourse=pre, source=src_arg, threshold=thr,
        minimal_radius=o["minimal_radius"], refine=o["refine"],
        refine_args=dict(o["refine_args"]) if o.get("refine_args") else None, perturbation_modes=o["modes"])
    label = f"grid={geom.grid_label(spec)}{spec['shape']} fields={[f['type'] for f in case['fields']]} times={times} opts={o} source={case['source']}"
    if case.get("no_frames"):
        # the file name was used before by an earlier run; the file left behind by finalize() holds what was recorded
        # now (nothing, or the frames the tracker was created with)
        old = droplets.EmulsionTimeCourse([droplets.Emulsion([droplets.SphericalDroplet(np.ones(grid.dim), 0.5)])] * 3,
                                          times=[100.0, 101.0, 102.0])
        common.monitored(rec, "earlier-file", old.to_file, path)
        fin = common.monitored(rec, "finalize", tracker.finalize)
        if rec.check(fin.ok, "no-exception", f"finalize raised {common.exc_text(fin.exc) if fin.exc else ''} without any frame; {label}"):
            rd = common.monitored(rec, "from_file", droplets.EmulsionTimeCourse.from_file, path, progress=False)
            if rec.check(rd.ok, "no-exception", f"reading the tracker file raised {rd.exc!r} (no frame recorded); {label}"):
                rec.check(snap(rd.result) == snap(tracker.data), "file-roundtrip",
                          f"no frame was recorded, but the file left by finalize() holds times {list(rd.result.times)} "
                          f"(recorded: {list(tracker.data.times)}); {label}")
        try:
            os.remove(path)
        except OSError:
            pass
        rec.count("trackers_finalized_without_a_frame")
        rec.evaluated(nontrivial=True)
        return
    log: list = []
    ok = True
    with monitors.wrap_attr(ia, "locate_droplets", monitors.recording(log, "locate_droplets"),
                            aliases=[(droplets, "locate_droplets")]):
        for fed, t in zip(feeds, times):
            c = common.monitored(rec, "DropletTracker.handle", tracker.handle, fed, t)
            if not rec.check(c.ok, "no-exception", f"DropletTracker.handle raised {common.exc_text(c.exc) if c.exc else ''}; {label}"):
                ok = False
                break
    if not ok:
        rec.evaluated(nontrivial=False)
        return
    # forwarding observed directly - an auxiliary observation: it is judged only when the wrapper
    # on image_analysis.locate_droplets was reached exactly once per frame (a tracker that binds the
    # function differently is not observable here; the property itself is decided by the
    # comparison with the offline analysis below)
    if len(log) != len(fields):
        rec.count("forwarding_not_observable")
    else:
        import inspect

        sig = inspect.signature(ia.locate_droplets)
        good = True
        for e, f in zip(log, fields):
            try:
                ba = sig.bind(*e["args"], **e["kwargs"])
                ba.apply_defaults()
                kw = ba.arguments
            except TypeError:
                good = False
                break
            got_field = kw.get("phase_field")
            good = good and got_field is not None and np.array_equal(np.asarray(got_field.data), np.asarray(f.data))
            good = good and _same_value(kw.get("threshold", 0.5), thr) and bool(kw.get("refine", False)) == o["refine"]
            good = good and kw.get("modes", 0) == o["modes"] and _same_value(float(kw.get("minimal_radius", 0)), float(o["minimal_radius"]))
            good = good and (kw.get("refine_args") or None) == (o.get("refine_args") or None)
        rec.check(good, "forwarding",
                  f"locate_droplets inside handle was called with {[{k: v for k, v in e['kwargs'].items()} for e in log[:2]]} "
                  f"- not the tracker's settings/fields; {label}")
    if case.get("quick_look") and fields:
        # a quick look at one frame with coarse fit options between the run and the offline analysis
        # (not judged; it must not influence the later analysis)
        ql = common.monitored(rec, "quick-look", ia.refine_droplet, fields[0],
                              droplets.DiffuseDroplet(np.asarray([0.5 * (b[0] + b[1]) for b in grid.axes_bounds]), 2.0, 1.0),
                              **case["quick_look"])
        common.monitored(rec, "quick-look", droplets.locate_droplets, fields[-1], refine=True, refine_args=dict(case["quick_look"]))
        rec.count("quick_look_between_run_and_offline_analysis")
    # offline analysis of the same stored fields
    storage = MemoryStorage.from_fields(times=times, fields=fields)
    kwargs = {"threshold": thr, "minimal_radius": o["minimal_radius"], "refine": o["refine"], "modes": o["modes"], "progress": False}
    if o.get("refine_args"):
        kwargs["refine_args"] = dict(o["refine_args"])
    if case.get("offline_processes"):
        kwargs["num_processes"] = case["offline_processes"]  # "offline with the same settings", in worker processes
        rec.count("offline_analysis_in_worker_processes")
    off = common.monitored(rec, "from_storage", droplets.EmulsionTimeCourse.from_storage, storage, **kwargs)
    n_pre = 1 if pre is not None else 0
    if rec.check(off.ok, "no-exception", f"from_storage raised {common.exc_text(off.exc) if off.exc else ''}; {label}"):
        s_on = snap(tracker.data)
        s_off = snap(off.result)
        rec.check(s_on[1][n_pre:] == s_off[1] and s_on[2][n_pre:] == s_off[2], "equals-offline",
                  f"recorded time course differs from the offline analysis: times {tracker.data.times[n_pre:]} vs "
                  f"{list(off.result.times)}; droplets per frame {[len(e) for e in tracker.data.emulsions[n_pre:]]} vs "
                  f"{[len(e) for e in off.result.emulsions]}; {label}")
        rec.check([float(t) for t in tracker.data.times[n_pre:]] == [float(t) for t in times], "times-as-fed",
                  f"recorded times {tracker.data.times[n_pre:]} != fed times {times}; {label}")
    # file written at the end reads back equal
    if case.get("stale_file"):
        # the file name was used before by a longer run
        old = droplets.EmulsionTimeCourse([droplets.Emulsion([droplets.SphericalDroplet(np.ones(grid.dim), 0.5)])] * (len(times) + 3),
                                          times=[100.0 + k for k in range(len(times) + 3)])
        common.monitored(rec, "earlier-file", old.to_file, path)
        rec.count("tracker_file_written_over_an_earlier_longer_one")
    fin = common.monitored(rec, "finalize", tracker.finalize)
    if rec.check(fin.ok, "no-exception", f"finalize raised {common.exc_text(fin.exc) if fin.exc else ''}; {label}"):
        rd = common.monitored(rec, "from_file", droplets.EmulsionTimeCourse.from_file, path, progress=False)
        if rec.check(rd.ok, "no-exception", f"reading the tracker file raised {rd.exc!r}; {label}"):
            rec.check(snap(rd.result) == snap(tracker.data), "file-roundtrip",
                      f"file written by finalize() reads back different: times {list(rd.result.times)} vs {tracker.data.times}; {label}")
    try:
        os.remove(path)
    except OSError:
        pass
    counts = [len(e) for e in tracker.data.emulsions[n_pre:]]
    rec.evaluated(nontrivial=len(counts) >= 2 and any(counts))
    rec.count(f"source:{case['source']}")
    if 0 in counts and any(counts):
        rec.count("histories_with_empty_and_nonempty_frames")
    if any(b <= a for a, b in zip(times[:-1], times[1:])):
        rec.count("histories_with_restarting_times")


def run_lengthscale(case, rec):
    import droplets
    from droplets import image_analysis as ia

    spec = case["grid"]
    grid = geom.make_grid(spec)
    fields = [make_field(grid, spec, fd) for fd in case["fields"]]
    feeds = [_wrap_source(f, case["source"])[0] for f in fields]
    if case["source"] == "callable-on-field":
        fields = [_complement(g) for g in feeds]
    times = case["times"]
    scratch = Path(os.environ.get("VERIF_SCRATCH") or "/tmp")
    path = str(scratch / f"c14_{os.getpid()}.json")
    src_arg = _wrap_source(fields[0], case["source"])[1]
    label = f"grid={geom.grid_label(spec)}{spec['shape']} fields={[f['type'] for f in case['fields']]} method={case['method']}"
    # round 7 (C14_19): every method name that the offline analysis accepts is a valid request to the tracker
    mk = common.monitored(rec, "LengthScaleTracker", droplets.LengthScaleTracker, 1, filename=path, method=case["method"], source=src_arg)
    if not mk.ok and case["method"] == "bogus":
        # a method name the analysis does not know either: refusing it at once is as good as recording NaN (not judged)
        rec.count("unknown_method_refused_by_the_constructor")
        rec.evaluated(nontrivial=False)
        return
    if not rec.check(mk.ok, "no-exception", f"LengthScaleTracker(method={case['method']!r}) raised "
                     f"{common.exc_text(mk.exc) if mk.exc else ''} although get_length_scale accepts this method; {label}"):
        rec.evaluated(nontrivial=True)
        return
    tracker = mk.result
    expect = []
    for f, fed, t in zip(fields, feeds, times):
        try:
            expect.append(ia.get_length_scale(f, method=case["method"]))
        except Exception:  # noqa: BLE001 - the tracker must record NaN in this case
            expect.append(math.nan)
        c = common.monitored(rec, "LengthScaleTracker.handle", tracker.handle, fed, t)
        rec.check(c.ok, "never-raises", f"LengthScaleTracker.handle raised {common.exc_text(c.exc) if c.exc else ''}; {label}")
    got = list(tracker.length_scales)
    same = len(got) == len(expect) and all(
        (isinstance(g, float) and math.isnan(g) and isinstance(e, float) and math.isnan(e)) or g == e for g, e in zip(got, expect))
    rec.check(same and [float(t) for t in tracker.times] == [float(t) for t in times], "length-scale-recorded",
              f"recorded {got} at {tracker.times}, analysis gives {expect} at {times}; {label}")
    fin = common.monitored(rec, "finalize", tracker.finalize)
    if rec.check(fin.ok, "no-exception", f"finalize raised {fin.exc!r}; {label}"):
        data = json.loads(Path(path).read_text())
        same = len(data["length_scales"]) == len(got) and all(
            (isinstance(a, float) and math.isnan(a) and isinstance(b, float) and math.isnan(b)) or float(a) == float(b)
            for a, b in zip(data["length_scales"], got)) and [float(t) for t in data["times"]] == [float(t) for t in tracker.times]
        rec.check(same, "json-file", f"JSON file {data} != recorded lists {got}, {tracker.times}; {label}")
    try:
        os.remove(path)
    except OSError:
        pass
    rec.evaluated(nontrivial=len(fields) >= 2)
    rec.count(f"ls:{case['method']}|{geom.grid_label(spec)}")
    if any(isinstance(e, float) and math.isnan(e) for e in expect):
        rec.count("lengthscale_histories_with_failed_analysis")


def run_solver(case, rec):
    import droplets
    import pde

    r = np.random.default_rng(case["seed"])
    n = case["n"]
    grid = pde.UnitGrid([n, n], periodic=True)
    if case["pde"] == "cahn-hilliard":
        state = pde.ScalarField(grid, 0.5 + 0.6 * (r.random((n, n)) - 0.5))
        eq = pde.CahnHilliardPDE()
        t_range, dt = 2.0, 5e-3
    else:
        em = droplets.Emulsion.from_random(4, grid, (2.0, n / 6), rng=r)
        state = em.get_phasefield(grid)
        eq = pde.DiffusionPDE(0.5)
        t_range, dt = 4.0, 0.05
    tau = t_range / case["interrupts"]
    o = case["opts"]
    thr = float(o["threshold"]) if o["threshold"][0].isdigit() else o["threshold"]
    scratch = Path(os.environ.get("VERIF_SCRATCH") or "/tmp")
    h5 = str(scratch / f"c14_solver_{os.getpid()}.h5") if case.get("files") else None
    js = str(scratch / f"c14_solver_{os.getpid()}.json") if case.get("files") else None
    dt_tr = droplets.DropletTracker(tau, filename=h5, threshold=thr, minimal_radius=o["minimal_radius"], refine=o["refine"])
    ls_tr = droplets.LengthScaleTracker(tau, filename=js, method=case["ls_method"])
    storage = pde.MemoryStorage()
    kw = {"adaptive": True} if case.get("adaptive") else {}  # adaptive time stepping (the solver then reports step statistics)
    c = common.monitored(rec, "solve", eq.solve, state, t_range=t_range, dt=dt, backend="numpy",
                         tracker=[dt_tr, storage.tracker(tau), ls_tr], **kw)
    label = str(case)
    rec.count(f"solver_runs:{'adaptive' if case.get('adaptive') else 'fixed'}|{'files' if h5 else 'no files'}")
    if not c.ok:
        if common.raised_in_repo(c.exc):
            # the run was aborted by one of the trackers (in handle or when writing its file at the end)
            rec.check(False, "no-exception", f"the simulation was aborted by a tracker: {common.exc_text(c.exc)}; {label}")
            rec.evaluated(nontrivial=False)
        else:
            rec.harness_error(f"solver run failed: {c.exc!r}")
        return
    if h5:
        back = common.monitored(rec, "from_file", droplets.EmulsionTimeCourse.from_file, h5)
        if rec.check(back.ok, "no-exception", f"reading the tracker's file raised {back.exc!r}; {label}"):
            rec.check(snap(back.result) == snap(dt_tr.data), "file-roundtrip",
                      f"the file written at the end of the simulation reads back different from the recorded data; {label}")
        data = json.loads(Path(js).read_text())
        got_ls = list(ls_tr.length_scales)
        same = len(data["length_scales"]) == len(got_ls) and all(
            (a != a and b != b) or float(a) == float(b) for a, b in zip(data["length_scales"], got_ls))
        rec.check(same, "json-file", f"JSON file {data['length_scales']} != recorded length scales {got_ls}; {label}")
        for f_ in (h5, js):
            try:
                os.remove(f_)
            except OSError:
                pass
    rec.hit("call:DropletTracker.handle", len(dt_tr.data))
    off = common.monitored(rec, "from_storage", droplets.EmulsionTimeCourse.from_storage, storage, threshold=thr,
                           minimal_radius=o["minimal_radius"], refine=o["refine"], progress=False)
    if case.get("second_run") and off.ok:
        # the simulation is continued with the same tracker object (a second run from the final state): what was
        # recorded so far stays, the frames of the second run are added
        storage2 = pde.MemoryStorage()
        first = snap(dt_tr.data)
        c2 = common.monitored(rec, "solve", eq.solve, c.result, t_range=t_range / 2, dt=dt, backend="numpy",
                              tracker=[dt_tr, storage2.tracker(tau)], **kw)
        if c2.ok:
            off2 = common.monitored(rec, "from_storage", droplets.EmulsionTimeCourse.from_storage, storage2, threshold=thr,
                                    minimal_radius=o["minimal_radius"], refine=o["refine"], progress=False)
            if off2.ok:
                both = snap(dt_tr.data)
                s1, s2 = snap(off.result), snap(off2.result)
                rec.check(both[1] == s1[1] + s2[1] and both[2] == s1[2] + s2[2], "equals-offline",
                          f"after a second run with the same tracker the recorded data ({len(both[1])} frames) are not the frames of "
                          f"the first run ({len(first[1])}) followed by those of the second ({len(s2[1])}); {label}")
                rec.count("solver_runs_continued_with_the_same_tracker")
        elif common.raised_in_repo(c2.exc):
            rec.check(False, "no-exception", f"the continued simulation was aborted by a tracker: {common.exc_text(c2.exc)}; {label}")
        rec.evaluated(nontrivial=True)
        return
    if rec.check(off.ok, "no-exception", f"from_storage raised {off.exc!r}; {label}"):
        rec.check(snap(dt_tr.data) == snap(off.result), "equals-offline",
                  f"solver-driven tracking differs from the offline analysis: times {dt_tr.data.times} vs {list(off.result.times)}; "
                  f"counts {[len(e) for e in dt_tr.data]} vs {[len(e) for e in off.result]}; {label}")
    from droplets import image_analysis as ia

    exp = []
    for f in storage:
        try:
            exp.append(ia.get_length_scale(f, method=case["ls_method"]))
        except Exception:  # noqa: BLE001
            exp.append(math.nan)
    got = list(ls_tr.length_scales)
    same = len(got) == len(exp) and all((g != g and e != e) or g == e for g, e in zip(got, exp))
    rec.check(same, "length-scale-recorded", f"solver-driven length scales {got} != analysis of the stored fields {exp}; {label}")
    rec.evaluated(nontrivial=len(dt_tr.data) >= 2 and any(len(e) for e in dt_tr.data))
    rec.count(f"solver:{case['pde']}|frames:{len(dt_tr.data)}")


def run_long(case, rec):
    """A very long run on a tiny 1-D grid: the recorded time course, the file written at the end and the offline
    analysis of the stored fields agree frame by frame."""
    import droplets
    import pde

    n, N = case["cells"], case["frames"]
    grid = pde.UnitGrid([n])
    r = np.random.default_rng(case["seed"])
    patterns = [(r.random(n) < 0.4).astype(float) for _ in range(5)] + [np.zeros(n)]
    order = r.integers(0, len(patterns), N)
    fields = [pde.ScalarField(grid, patterns[k]) for k in order]
    times = [0.5 * k for k in range(N)]
    scratch = Path(os.environ.get("VERIF_SCRATCH") or "/tmp")
    path = str(scratch / f"c14_long_{os.getpid()}.h5")
    tracker = droplets.DropletTracker(1, filename=path, minimal_radius=case["minimal_radius"])
    label = f"{N} frames on UnitGrid([{n}]) seed={case['seed']}"
    for f, t in zip(fields, times):
        c = common.monitored(rec, "DropletTracker.handle", tracker.handle, f, t)
        if not c.ok:
            rec.check(False, "no-exception", f"DropletTracker.handle raised {common.exc_text(c.exc)} at t={t}; {label}")
            rec.evaluated(nontrivial=False)
            return
    fin = common.monitored(rec, "finalize", tracker.finalize)
    if rec.check(fin.ok, "no-exception", f"finalize raised {common.exc_text(fin.exc) if fin.exc else ''} after {N} frames; {label}"):
        back = common.monitored(rec, "from_file", droplets.EmulsionTimeCourse.from_file, path)
        if rec.check(back.ok, "no-exception", f"reading the file of a run with {N} frames raised {back.exc!r}; {label}"):
            rec.check(snap(back.result) == snap(tracker.data), "file-roundtrip",
                      f"the file written after {N} frames reads back different from the recorded data "
                      f"({len(back.result)} frames read); {label}")
    storage = pde.MemoryStorage()
    storage.start_writing(fields[0])
    for f, t in zip(fields, times):
        storage.append(f, t)
    off = common.monitored(rec, "from_storage", droplets.EmulsionTimeCourse.from_storage, storage,
                           minimal_radius=case["minimal_radius"], progress=False)
    if rec.check(off.ok, "no-exception", f"from_storage raised {off.exc!r}; {label}"):
        rec.check(snap(tracker.data) == snap(off.result), "equals-offline",
                  f"recorded time course of {N} frames differs from the offline analysis; {label}")
    try:
        os.remove(path)
    except OSError:
        pass
    rec.evaluated(nontrivial=True)
    rec.count(f"long_runs:{N}_frames")


def run_failing(case, rec):
    """The analysis of a frame fails (solver options that do not go with bounds, a NaN pixel inside a droplet, an option
    the solver does not know): the offline analysis raises - and so does the tracker, instead of recording something
    else for that frame."""
    import droplets
    import pde

    n = case["n"]
    r = np.random.default_rng(case["seed"])
    grid = pde.UnitGrid([n, n], periodic=bool(r.integers(0, 2)))
    fields = []
    for _ in range(case["frames"]):
        c = r.uniform(n * 0.3, n * 0.7, 2)
        f = droplets.DiffuseDroplet(c, float(r.uniform(3.0, 4.5)), 1.0).get_phase_field(grid)
        if case["how"] == "nan-pixel":
            f.data[int(c[0]), int(c[1])] = np.nan
        fields.append(f)
    ra = {"method-lm": {"least_squares_params": {"method": "lm"}}, "nan-pixel": {},
          "misspelt-option": {"least_squares_params": {"max_nfevs": 10}}}[case["how"]]
    times = [0.5 * k for k in range(len(fields))]
    storage = pde.MemoryStorage.from_fields(times=times, fields=fields)
    off = common.monitored(rec, "from_storage", droplets.EmulsionTimeCourse.from_storage, storage, refine=True,
                           refine_args=json.loads(json.dumps(ra)), progress=False)
    tracker = droplets.DropletTracker(1, refine=True, refine_args=json.loads(json.dumps(ra)))
    raised = None
    for f, t in zip(fields, times):
        h = common.monitored(rec, "DropletTracker.handle", tracker.handle, f, t)
        if not h.ok:
            raised = h.exc
            break
    label = f"failing analysis ({case['how']}), {len(fields)} frames on UnitGrid([{n}, {n}])"
    if off.ok:
        rec.count("failing:offline_analysis_did_not_raise")
        if raised is None:
            rec.check(snap(tracker.data) == snap(off.result), "equals-offline", f"recorded data differ from the offline analysis; {label}")
    else:
        rec.count(f"failing:offline_raises_{type(off.exc).__name__}")
        rec.check(raised is not None, "equals-offline",
                  f"the offline analysis of the stored frames raises {type(off.exc).__name__}: {str(off.exc)[:80]}, but the "
                  f"tracker recorded {[len(e) for e in tracker.data.emulsions]} droplets per frame without raising; {label}")
    rec.evaluated(nontrivial=not off.ok)


def run(case, rec):
    {"failing": run_failing, "direct": run_direct, "lengthscale": run_lengthscale, "solver": run_solver, "long": run_long}[case["kind"]](case, rec)


def run_shard(spec, rec):
    from droplets import emulsions, trackers

    rec.watch(trackers.DropletTracker.handle, trackers.LengthScaleTracker.handle, trackers.LengthScaleTracker.finalize,
              emulsions.EmulsionTimeCourse.from_storage, emulsions.EmulsionTimeCourse.append)
    common.run_generated(spec, rec, gen, run, ID)


def replay(v, rec):
    with rec.case(v["kind"], v["case"]):
        run(v["case"], rec)
