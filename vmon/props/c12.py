"""C12 - sphere volume, surface and radius conversions are mutually consistent.

Monitor: differential post-condition over all variants of each conversion (scalar, array,
dimension-specialised compiled, dimension-generic called from compiled code, py-pde's
``volume_from_radius``) for every generated argument; round trips; derivative relation;
droplet properties against the closed forms.
"""

from __future__ import annotations

import math

import numpy as np

from . import common

ID = "C12"
ENV = {"NUMBA_BOUNDSCHECK": "1"}
RULE = (
    "cases = batches of radii/volumes log-uniform over 1e-15..1e15 plus {0, 1}, as scalars and as "
    "arrays (also of length 0), for d=1..3; and droplets (spherical/diffuse) whose volume, surface "
    "area, curvature, bounding box, from_volume and volume setter are compared with the closed "
    "forms, including radius 0 before setting a volume and repeated queries. Non-trivial = batch "
    "containing values spanning > 3 decades, or a droplet case with radius != 1. Distinct = "
    "digest of the case."
)
ASSUMPTIONS = [
    "the statement's symbolic quantifier is out of reach of executions; 30 decades are sampled",
    "variants must agree to 8 ulp; round trips to 1e-13 relative; S = dV/dr by central difference to 1e-7",
    "values below 1e-15 (where r**3 underflows towards denormals) are not claimed",
]
REQUIRED_MONITORS = {"post:variants-agree": 200, "post:roundtrip": 200, "post:derivative": 100,
                     "post:droplet-properties": 200, "post:volume-setter": 200}
MIN_NONTRIVIAL = 100
EPS = np.finfo(float).eps


def plan(tier, seed):
    if tier == "quick":
        kinds = {"batch": 900, "droplet": 6000, "collection": 900}
        per = 450
    else:
        kinds = {"batch": 40000, "droplet": 600000, "collection": 60000}
        per = 20000
    nojit = common.shards({"batch-nojit": max(60, kinds["batch"] // 10)}, per_shard=per // 3, tier=tier, seed=seed,
                          extra={"env": {"NUMBA_DISABLE_JIT": "1", "NUMBA_BOUNDSCHECK": "1"}})
    return common.shards({"batch": kinds["batch"]}, per_shard=per // 3, tier=tier, seed=seed) + nojit + \
        common.shards({"droplet": kinds["droplet"]}, per_shard=per * 2, tier=tier, seed=seed) + \
        common.shards({"collection": kinds["collection"]}, per_shard=per, tier=tier, seed=seed)


def V(r, dim):
    r = np.asarray(r, float)
    return {1: 2 * r, 2: math.pi * r * r, 3: 4 * math.pi / 3 * r ** 3}[dim]


def S(r, dim):
    r = np.asarray(r, float)
    return {1: np.full(r.shape, 2.0), 2: 2 * math.pi * r, 3: 4 * math.pi * r * r}[dim]


def gen(rng, kind, tier):
    if kind in ("batch", "batch-nojit"):
        n = int(rng.choice([0, 1, 1, 5, 40]))
        lo = float(rng.uniform(-15, 12))
        span = float(rng.choice([0.5, 3.0, 30.0]))
        vals = 10 ** rng.uniform(lo, min(15.0, lo + span), n)
        vals = [float(x) for x in vals]
        if n and rng.random() < 0.3:
            vals[int(rng.integers(n))] = float(rng.choice([0.0, 1.0]))
        case = {"values": vals, "dim": int(rng.integers(1, 4))}
        if n and rng.random() < 0.2:
            # whole numbers, also handed over as python ints and as integer arrays (radii in pixels, say)
            # (at most 1000, so that the cube stays inside int32: integer overflow of narrow numpy types is numpy's
            # arithmetic, not the conversion formulas - an early run with radii up to 2000 in int32 flagged it)
            case["values"] = [float(x) for x in rng.integers(0, 1001, n)]
            case["integers"] = True
        return case
    if kind == "collection":
        dim = int(rng.integers(1, 4))
        classes = ["SphericalDroplet", "DiffuseDroplet"] + {1: [], 2: ["PerturbedDroplet2D"] * 2,
                                                             3: ["PerturbedDroplet3D", "PerturbedDroplet3DAxisSym"]}[dim]
        cls = str(rng.choice(classes))
        n = int(rng.choice([1, 2, 3, 6]))
        scale = float(10 ** rng.uniform(-2, 2))
        ms = []
        for _ in range(n):
            R = 0.0 if rng.random() < 0.15 else float(scale * 10 ** rng.uniform(-1, 1))
            pos = [float(x) for x in rng.normal(0, 5 * scale, dim)]
            if cls == "PerturbedDroplet3DAxisSym":
                pos[0] = pos[1] = 0.0
            amps = None
            if cls.startswith("Perturbed"):
                amps = [float(x) for x in rng.uniform(-0.25, 0.25, int(rng.integers(1, 5)))]
            ms.append({"cls": cls, "pos": pos, "radius": R, "width": None if cls == "SphericalDroplet" else 0.3 * scale,
                       "amps": amps})
        return {"members": ms, "new_volume": float(10 ** rng.uniform(-6, 6))}
    dim = int(rng.integers(1, 4))
    cls = str(rng.choice(["SphericalDroplet", "DiffuseDroplet"]))
    if rng.random() < 0.12:
        dim, cls = 2, "PerturbedDroplet2D"  # the only perturbed class whose volume can be set
    R = float(rng.choice([0.0, 1.0])) if rng.random() < 0.1 else float(10 ** rng.uniform(-6, 6))
    return {"cls": cls, "pos": [float(x) for x in rng.normal(0, 10 ** rng.uniform(-1, 3), dim)], "radius": R,
            "new_volume": (float(10 ** rng.uniform(-12, 12)) if rng.random() > 0.15 else float(10 ** rng.uniform(-30, -12)))
            if rng.random() > 0.05 else 0.0,
            "width": None if rng.random() < 0.5 else 0.3, "route": common.pick_route(rng, 0.5),
            "amps": [float(x) for x in rng.uniform(-0.3, 0.3, int(rng.integers(1, 5)))]}


_c: dict = {}


def compiled(dim):
    """All compiled variants for a dimension (built once per process)."""
    if dim not in _c:
        import numba as nb
        from droplets.tools import spherical as sp

        rv_nd = sp.make_radius_from_volume_nd_compiled()
        vr_nd = sp.make_volume_from_radius_nd_compiled()

        @nb.njit
        def rv_from_jit(v, d):
            return rv_nd(v, d)

        @nb.njit
        def vr_from_jit(r, d):
            return vr_nd(r, d)

        _c[dim] = {
            "rv": sp.make_radius_from_volume_compiled(dim), "vr": sp.make_volume_from_radius_compiled(dim),
            "sr": sp.make_surface_from_radius_compiled(dim), "rv_nd_py": rv_nd, "vr_nd_py": vr_nd,
            "rv_nd_jit": rv_from_jit, "vr_nd_jit": vr_from_jit,
        }
    return _c[dim]


def agree(vals, ref, label, rec, what):
    ref = np.asarray(ref, float)
    for name, v in vals.items():
        v = np.asarray(v, float)
        ok = v.shape == ref.shape and bool(np.all(np.abs(v - ref) <= 8 * EPS * np.maximum(np.abs(ref), 1e-300)))
        rec.check(ok, "variants-agree", f"{what}: variant {name} = {v.tolist()[:4] if v.ndim else float(v)} differs from the "
                  f"closed form {ref.tolist()[:4] if ref.ndim else float(ref)}; {label}")


def run_batch(case, rec):
    from droplets.tools import spherical as sp
    from pde.grids.spherical import volume_from_radius as pde_vfr

    dim = case["dim"]
    arr = np.asarray(case["values"], float)
    c = compiled(dim)
    label = f"dim={dim} values={case['values'][:5]}"
    # as array
    forms = [("array", arr)] + [(f"scalar[{i}]", float(x)) for i, x in enumerate(arr[:3])]
    if arr.size >= 1:
        forms.append(("0-d array", np.array(float(arr[0]))))
    if arr.size >= 4 and arr.size % 2 == 0:
        forms.append(("2-d array", arr.reshape(2, -1)))
    if case.get("integers"):
        forms += [("int64 array", arr.astype(np.int64)), ("int32 array", arr.astype(np.int32)), ("python int", int(arr[0])),
                  ("numpy int", np.int64(arr[-1]))]
        rec.count("integer_arguments")
    for fname, x in forms:
        is_arr = isinstance(x, np.ndarray)
        lab = f"{label} form={fname}"
        calls = {
            "volume_from_radius": lambda: sp.volume_from_radius(x, dim),
            "pde.volume_from_radius": lambda: pde_vfr(x, dim),
            "make_volume_from_radius_compiled": lambda: c["vr"](x),
            "volume_nd(python)": lambda: c["vr_nd_py"](x, dim),
            "volume_nd(from jit)": lambda: c["vr_nd_jit"](x, dim),
        }
        res = {}
        for k, f in calls.items():
            cc = common.monitored(rec, k, f)
            if rec.check(cc.ok, "no-exception", f"{k} raised {cc.exc!r}; {lab}"):
                res[k] = cc.result
                rec.check(isinstance(cc.result, np.ndarray) == is_arr or np.ndim(cc.result) == np.ndim(x), "result-kind",
                          f"{k} returned {type(cc.result).__name__} for a {'array' if is_arr else 'scalar'}; {lab}")
        agree(res, V(x, dim), lab, rec, "volume(radius)")
        calls = {
            "radius_from_volume": lambda: sp.radius_from_volume(x, dim),
            "make_radius_from_volume_compiled": lambda: c["rv"](x),
            "radius_nd(python)": lambda: c["rv_nd_py"](x, dim),
            "radius_nd(from jit)": lambda: c["rv_nd_jit"](x, dim),
        }
        res = {}
        for k, f in calls.items():
            cc = common.monitored(rec, k, f)
            if rec.check(cc.ok, "no-exception", f"{k} raised {cc.exc!r}; {lab}"):
                res[k] = cc.result
        xv = np.asarray(x, float)
        refr = {1: xv / 2, 2: np.sqrt(xv / math.pi), 3: np.cbrt(3 * xv / (4 * math.pi))}[dim]
        for name, v in res.items():
            v = np.asarray(v, float)
            ok = v.shape == refr.shape and bool(np.all(np.abs(v - refr) <= 8 * EPS * np.maximum(np.abs(refr), 1e-300)))
            rec.check(ok, "variants-agree", f"radius(volume): variant {name} = {v.tolist()[:4] if v.ndim else float(v)} "
                      f"differs from the closed form; {lab}")
        calls = {"surface_from_radius": lambda: sp.surface_from_radius(x, dim),
                 "make_surface_from_radius_compiled": lambda: c["sr"](x)}
        res = {}
        for k, f in calls.items():
            cc = common.monitored(rec, k, f)
            if rec.check(cc.ok, "no-exception", f"{k} raised {cc.exc!r}; {lab}"):
                res[k] = cc.result
        agree(res, S(x, dim), lab, rec, "surface(radius)")
        # round trips
        rt = common.monitored(rec, "roundtrip", lambda: sp.radius_from_volume(sp.volume_from_radius(x, dim), dim))
        if rt.ok:
            rec.check(bool(np.all(np.abs(np.asarray(rt.result) - xv) <= 1e-13 * xv)), "roundtrip",
                      f"radius -> volume -> radius gives {np.asarray(rt.result).tolist() if is_arr else float(rt.result)}; {lab}")
        if dim > 1:
            rt = common.monitored(rec, "roundtrip", lambda: sp.radius_from_surface(sp.surface_from_radius(x, dim), dim))
            if rec.check(rt.ok, "no-exception", f"surface round trip raised {rt.exc!r}; {lab}"):
                rec.check(bool(np.all(np.abs(np.asarray(rt.result) - xv) <= 1e-13 * xv)), "roundtrip",
                          f"radius -> surface -> radius gives {np.asarray(rt.result).tolist() if is_arr else float(rt.result)}; {lab}")
        else:
            rt = common.monitored(rec, "radius_from_surface(dim=1)", sp.radius_from_surface, x, 1)
            rec.check(not rt.ok and isinstance(rt.exc, RuntimeError), "roundtrip",
                      f"radius_from_surface in 1-D should raise RuntimeError, got {rt.exc!r}/{rt.result!r}")
        # surface = dV/dr
        pos = xv[xv > 0] if is_arr else (xv if xv > 0 else None)
        if pos is not None and np.size(pos):
            hstep = 1e-6 * pos
            dv = (np.asarray(sp.volume_from_radius(pos + hstep, dim), float) - np.asarray(sp.volume_from_radius(pos - hstep, dim), float)) / (2 * hstep)
            s = np.asarray(sp.surface_from_radius(pos, dim), float)
            rec.check(bool(np.all(np.abs(dv - s) <= 1e-7 * np.abs(s))), "derivative",
                      f"surface {np.ravel(s)[:3].tolist()} != dV/dr {np.ravel(dv)[:3].tolist()}; {lab}")
    span = (np.log10(arr[arr > 0].max() / arr[arr > 0].min()) if np.count_nonzero(arr > 0) >= 2 else 0.0)
    rec.evaluated(nontrivial=span > 3)
    rec.count(f"batch_dim:{dim}|n:{len(arr)}")


def run_droplet(case, rec):
    import droplets

    dim = len(case["pos"])
    pos = np.asarray(case["pos"], float)
    R = case["radius"]
    if case["cls"] == "PerturbedDroplet2D":
        return run_perturbed_setter(case, rec)
    if case["cls"] == "SphericalDroplet":
        d = droplets.SphericalDroplet(pos, R)
    else:
        d = droplets.DiffuseDroplet(pos, R, case["width"])
    d = common.via(d, case.get("route"))  # a droplet's provenance must not matter
    rec.count(f"route:{case.get('route')}")
    label = str(case)
    before = common.droplet_bytes(d)

    def props():
        return {"volume": d.volume, "surface_area": d.surface_area, "bbox": np.asarray(d.bbox.bounds, float),
                "curvature": d.interface_curvature if R > 0 else None}

    c = common.monitored(rec, "droplet-properties", props)
    if rec.check(c.ok, "no-exception", f"droplet properties raised {c.exc!r}; {label}"):
        p = c.result
        ok = abs(p["volume"] - float(V(R, dim))) <= 8 * EPS * float(V(R, dim))
        ok = ok and abs(p["surface_area"] - float(S(R, dim))) <= 8 * EPS * float(S(R, dim))
        exp_bbox = np.stack([pos - R, pos + R], axis=1)
        ok = ok and p["bbox"].shape == exp_bbox.shape and bool(np.all(np.abs(p["bbox"] - exp_bbox) <= 8 * EPS * (np.abs(pos)[:, None] + R)))
        if R > 0:
            ok = ok and abs(p["curvature"] - 1 / R) <= 8 * EPS / R
        rec.check(ok, "droplet-properties", f"volume/surface/bbox/curvature {p} do not follow from radius and position; {label}")
        # queries must not move the droplet; a second query gives the same answer
        c2 = common.monitored(rec, "droplet-properties", props)
        rec.check(common.droplet_bytes(d) == before and c2.ok and np.array_equal(c2.result["bbox"], p["bbox"]), "queries-pure",
                  f"querying properties changed the droplet or a repeated query differs; {label}")
    # from_volume
    v = float(V(R, dim))
    c = common.monitored(rec, "from_volume", type(d).from_volume, pos, v)
    if rec.check(c.ok, "no-exception", f"from_volume raised {c.exc!r}; {label}"):
        rec.check(abs(c.result.radius - R) <= 1e-13 * R, "roundtrip", f"from_volume(volume(R)) has radius {c.result.radius}; {label}")
    # volume setter
    nv = case["new_volume"]

    def setv():
        d.volume = nv
        return d.volume

    c = common.monitored(rec, "volume-setter", setv)
    if rec.check(c.ok, "no-exception", f"setting the volume raised {common.exc_text(c.exc) if c.exc else ''}; {label}"):
        rec.check(abs(c.result - nv) <= 1e-13 * nv and np.isfinite(c.result), "volume-setter",
                  f"set volume {nv!r}, read back {c.result!r}; {label}")
        rec.check(np.array_equal(np.asarray(d.position), pos), "volume-setter", f"setting the volume moved the droplet; {label}")
    rec.evaluated(nontrivial=R != 1.0)
    rec.count(f"droplet_dim:{dim}|{case['cls']}")
    if R == 0:
        rec.count("radius_zero_before_setting_volume")


def run_perturbed_setter(case, rec):
    """Setting the volume of a perturbed 2-D droplet and reading it back returns the value set
    (the relative perturbation is kept, so the volume is pi R^2 (1 + sum a^2 / 2))."""
    from droplets import droplets as dmod

    pos = np.asarray(case["pos"], float)
    amps = np.asarray(case["amps"], float)
    d = common.via(dmod.PerturbedDroplet2D(pos, case["radius"], case["width"], amps), case.get("route"))
    label = str(case)
    nv = case["new_volume"]

    def setv():
        d.volume = nv
        return d.volume

    c = common.monitored(rec, "volume-setter", setv)
    if rec.check(c.ok, "no-exception", f"setting the volume raised {common.exc_text(c.exc) if c.exc else ''}; {label}"):
        rec.check(bool(np.isfinite(c.result)) and abs(c.result - nv) <= 1e-13 * nv, "volume-setter",
                  f"set volume {nv!r}, read back {c.result!r}; {label}")
        term = 1 + float(np.sum(amps ** 2)) / 2
        rec.check(abs(d.radius - math.sqrt(nv / (math.pi * term))) <= 1e-13 * max(d.radius, 1e-300) and
                  np.array_equal(np.asarray(d.position), pos) and np.array_equal(np.asarray(d.amplitudes), amps), "volume-setter",
                  f"after setting the volume: radius {d.radius}, position {list(map(float, d.position))}, amplitudes "
                  f"{list(map(float, d.amplitudes))}; {label}")
    rec.evaluated(nontrivial=True)
    rec.count("droplet_dim:2|PerturbedDroplet2D")
    if case["radius"] == 0:
        rec.count("radius_zero_before_setting_volume")


def run_collection(case, rec):
    """What collections report about their droplets follows from the droplets: the bounding box of an emulsion is the
    union of the boxes [position - radius, position + radius] of all its droplets (also vanished ones), its total
    volume the sum of their volumes, and a track reports each droplet's own radius and volume.  A perturbed 3-D
    droplet whose volume can be set (it cannot in the library as it stands) must read the set value back."""
    import droplets
    from .c03 import make_droplet

    ms = case["members"]
    dim = len(ms[0]["pos"])
    ds = [make_droplet(m) for m in ms]
    label = str(case)
    # every class can be created from a position and a volume: the radius is that of the sphere of this volume
    from droplets import droplets as dmod
    from droplets.tools import spherical as sp_

    cls_ = getattr(dmod, ms[0]["cls"])
    v_new = case["new_volume"]
    fv = common.monitored(rec, "from_volume", cls_.from_volume, np.asarray(ms[0]["pos"], float), v_new)
    if rec.check(fv.ok, "no-exception", f"{ms[0]['cls']}.from_volume raised {common.exc_text(fv.exc) if fv.exc else ''}; {label}"):
        r_exp = float(sp_.radius_from_volume(v_new, dim))
        rec.check(type(fv.result) is cls_ and abs(fv.result.radius - r_exp) <= 1e-13 * r_exp, "from-volume",
                  f"{ms[0]['cls']}.from_volume(.., {v_new}) has radius {fv.result.radius!r}, the sphere of that volume has {r_exp!r}; {label}")
    own = common.monitored(rec, "droplet.volume", lambda: [float(d.volume) for d in ds])
    if not own.ok and isinstance(own.exc, NotImplementedError):
        rec.count("droplet_volume_not_implemented")  # axisymmetric perturbed droplets
        vols = None
    elif not rec.check(own.ok, "no-exception", f"droplet.volume raised {common.exc_text(own.exc) if own.exc else ''}; {label}"):
        return
    else:
        vols = np.array(own.result)
    if not ms[0]["cls"].startswith("Perturbed"):
        em = droplets.Emulsion([d.copy() for d in ds])
        c = common.monitored(rec, "emulsion-properties", lambda: (np.asarray(em.bbox.bounds, float), float(em.total_droplet_volume)))
        if rec.check(c.ok, "no-exception", f"Emulsion.bbox/total_droplet_volume raised {common.exc_text(c.exc) if c.exc else ''}; {label}"):
            P = np.array([m["pos"] for m in ms], float)
            Rr = np.array([m["radius"] for m in ms], float)
            exp = np.stack([(P - Rr[:, None]).min(axis=0), (P + Rr[:, None]).max(axis=0)], axis=1)
            tol = 8 * EPS * (np.abs(P).max() + Rr.max())
            rec.check(c.result[0].shape == exp.shape and bool(np.all(np.abs(c.result[0] - exp) <= tol)), "droplet-properties",
                      f"Emulsion.bbox {c.result[0].tolist()} is not the union {exp.tolist()} of its droplets' boxes; {label}")
            ev = float(sum(float(V(m["radius"], dim)) for m in ms))
            rec.check(abs(c.result[1] - ev) <= 1e-13 * len(ms) * ev, "droplet-properties",
                      f"Emulsion.total_droplet_volume {c.result[1]!r} != sum of the droplets' volumes {ev!r}; {label}")
    tr = droplets.DropletTrack([d.copy() for d in ds], times=[float(k) for k in range(len(ds))])
    c = common.monitored(rec, "track-properties", lambda: (np.asarray(tr.get_radii(), float),
                                                          np.asarray(tr.get_volumes(), float) if vols is not None else None))
    if rec.check(c.ok, "no-exception", f"DropletTrack.get_radii/get_volumes raised {common.exc_text(c.exc) if c.exc else ''}; {label}"):
        rr, vv = c.result
        rec.check(rr.shape == (len(ds),) and bool(np.all(rr == np.array([m["radius"] for m in ms]))), "droplet-properties",
                  f"DropletTrack.get_radii {rr.tolist()} differs from the droplets' radii; {label}")
        rec.check(vols is None or vv.shape == (len(ds),) and bool(np.all(np.abs(vv - vols) <= 1e-14 * np.abs(vols))), "droplet-properties",
                  f"DropletTrack.get_volumes {vv.tolist()} differs from the droplets' own volumes {vols.tolist()}; {label}" if vols is not None else "")
    if ms[0]["cls"] in ("PerturbedDroplet3D", "PerturbedDroplet3DAxisSym") and ms[0]["radius"] > 0:
        d = ds[0].copy()
        nv = case["new_volume"]

        def setv():
            d.volume = nv
            return float(d.volume)

        c = common.monitored(rec, "volume-setter", setv)
        if c.ok:
            rec.check(bool(np.isfinite(c.result)) and abs(c.result - nv) <= 1e-9 * nv, "volume-setter",
                      f"set volume {nv!r}, read back {c.result!r}; {label}")
        elif isinstance(c.exc, (NotImplementedError, AttributeError)):
            rec.count("volume_of_3d_perturbed_droplets_cannot_be_set")
        else:
            rec.check(False, "no-exception", f"setting the volume raised {common.exc_text(c.exc)}; {label}")
    rec.evaluated(nontrivial=len(ms) > 1)
    rec.count(f"collection_dim:{dim}|{ms[0]['cls']}")
    if any(m["radius"] == 0 for m in ms) and any(m["radius"] > 0 for m in ms):
        rec.count("collections_with_vanished_and_finite_droplets")


def run(case, rec):
    if case["kind"] == "collection":
        return run_collection(case, rec)
    if case["kind"] in ("batch", "batch-nojit"):
        if case["kind"] == "batch-nojit":
            rec.count("batches_with_the_jit_disabled")
        run_batch(case, rec)
    else:
        run_droplet(case, rec)


def run_shard(spec, rec):
    from droplets import droplets as dmod
    from droplets.tools import spherical as sp

    rec.watch(sp.radius_from_volume, sp.surface_from_radius, sp.radius_from_surface)
    rec.note("numba_boundscheck", __import__("os").environ.get("NUMBA_BOUNDSCHECK"))
    common.run_generated(spec, rec, gen, run, ID)


def replay(v, rec):
    with rec.case(v["kind"], v["case"]):
        run(v["case"], rec)
