"""Helpers shared by the property modules: shard planning, case loops, event log."""

from __future__ import annotations

import time

import numpy as np

from .. import core


def shards(kinds: dict[str, int], *, per_shard: int, tier: str, seed: int,
           timeout_s: float = 1500.0, budget_s: float | None = None, extra=None):
    """Split `n` cases of each kind into shards of at most `per_shard` cases."""
    out = []
    for kind, n in kinds.items():
        i = 0
        k = 0
        while i < n:
            m = min(per_shard, n - i)
            spec = {"name": f"{kind}#{k}", "kind": kind, "start": i, "n": m,
                    "seed": seed, "tier": tier, "timeout_s": timeout_s}
            if budget_s:
                spec["budget_s"] = budget_s
            if extra:
                spec.update(extra)
            out.append(spec)
            i += m
            k += 1
    return out


def case_indices(spec, rec):
    """Iterate case indices of a shard, stopping at the optional wall-clock budget.

    Stopping early is recorded (it lowers `evaluations`; it is never a verdict).
    """
    budget = spec.get("budget_s")
    for i in range(spec["start"], spec["start"] + spec["n"]):
        if budget and rec.elapsed() > budget:
            rec.count("budget_truncated_cases", spec["start"] + spec["n"] - i)
            return
        yield i


# share of generated grids whose length unit is a power of ten other than 1 (1e-3..1e3): cell sizes, box origins
# and everything the generators derive from them (positions, radii, widths, distances) scale along
UNIT_P = {"C01": 0.15, "C02": 0.15, "C03": 0.15, "C04": 0.15, "C09": 0.15, "C10": 0.15}


def run_generated(spec, rec, gen, run, prop):
    """Standard loop: case = gen(rng, kind, tier); run(case, rec) inside a case context."""
    from ..oracles import geom

    kind = spec["kind"]
    geom.UNIT_P = UNIT_P.get(prop, 0.0)
    geom.UNIT_SEEN.clear()
    try:
        _run_generated(spec, rec, gen, run, prop, kind)
    finally:
        for u, n in geom.UNIT_SEEN.items():
            rec.count(f"grids_with_length_unit:{u}", n)
        geom.UNIT_P = 0.0


def _run_generated(spec, rec, gen, run, prop, kind):
    for i in case_indices(spec, rec):
        rng = core.sub_rng(spec["seed"], prop, kind, i)
        try:
            case = gen(rng, kind, spec["tier"])
        except Exception as e:  # noqa: BLE001
            rec.harness_error(f"gen[{kind}#{i}]", e)
            continue
        if case is None:
            rec.count("generator_gave_up")
            continue
        case["kind"] = kind
        with rec.case(kind, case):
            try:
                run(case, rec)
            except Exception as e:  # noqa: BLE001
                rec.harness_error(f"run[{kind}#{i}]", e)


class Call:
    """Outcome of a monitored call at the API boundary (call event, then return event)."""

    __slots__ = ("name", "result", "exc", "t_call", "t_ret")

    def __init__(self, name):
        self.name = name
        self.result = None
        self.exc = None
        self.t_call = time.monotonic_ns()
        self.t_ret = None

    @property
    def ok(self):
        return self.exc is None


def monitored(rec, name, fn, *args, **kwargs) -> Call:
    """Invoke `fn` recording call and return/raise events; never lets the exception out."""
    c = Call(name)
    rec.hit(f"call:{name}")
    try:
        c.result = fn(*args, **kwargs)
    except Exception as e:  # noqa: BLE001 - the exception *is* the observation
        c.exc = e
        rec.hit(f"raise:{name}")
    c.t_ret = time.monotonic_ns()
    return c


def exc_text(e: BaseException) -> str:
    import traceback

    tb = traceback.extract_tb(e.__traceback__)
    where = ""
    for fr in reversed(tb):
        if "/droplets/" in fr.filename:
            where = f" at {fr.filename.split('/droplets/')[-1]}:{fr.lineno} in {fr.name}"
            break
    return f"{type(e).__name__}: {str(e)[:200]}{where}"


def raised_in_repo(e: BaseException) -> bool:
    """True if a frame of the package under test is part of the exception's traceback."""
    import traceback

    return any("/droplets/" in fr.filename for fr in traceback.extract_tb(e.__traceback__))


def droplet_rows(emulsion) -> list:
    """[(class name, [floats...])] for every droplet (NaN kept)."""
    from numpy.lib.recfunctions import structured_to_unstructured

    rows = []
    for d in emulsion:
        rows.append([type(d).__name__,
                     np.atleast_1d(structured_to_unstructured(d.data)).astype(float).tolist()])
    return rows


def droplet_bytes(d) -> bytes:
    return type(d).__name__.encode() + b"|" + str(d.data.dtype).encode() + b"|" + d.data.tobytes()


# --------------------------------------------------------------------------- provenance

ROUTES = ("ctor", "copy", "pickle", "deepcopy", "from_data", "emulsion", "linked", "pickled-emulsion", "file")


def pick_route(rng, p_plain=0.5) -> str:
    """A droplet's provenance must not matter: choose how the object under test is obtained."""
    if rng.random() < p_plain:
        return "ctor"
    return str(rng.choice(ROUTES[1:]))


def via(d, route):
    """Return a droplet equal to `d` obtained through `route` (constructor, copy, pickle round
    trip as in worker processes, deepcopy, from_data, member of an emulsion, ...)."""
    import copy
    import pickle

    import droplets

    if route in (None, "ctor"):
        return d
    if route == "copy":
        return d.copy()
    if route == "pickle":
        return pickle.loads(pickle.dumps(d))
    if route == "deepcopy":
        return copy.deepcopy(d)
    if route == "from_data":
        return type(d).from_data(d.data.copy())
    if route == "emulsion":
        return droplets.Emulsion([d])[0]
    if route == "linked":
        em = droplets.Emulsion([d, d])
        em.get_linked_data()
        return em[1]
    if route == "pickled-emulsion":
        return pickle.loads(pickle.dumps(droplets.Emulsion([d])))[0]
    if route == "file":
        # written to an HDF5 file as the only member of an emulsion and read back
        import os
        import tempfile

        fd, path = tempfile.mkstemp(suffix=".h5", dir=os.environ.get("VERIF_SCRATCH") or None)
        os.close(fd)
        try:
            try:
                droplets.Emulsion([d]).to_file(path)
            except Exception:  # noqa: BLE001 - not every droplet can be written (perturbed droplets without amplitudes)
                return d
            return droplets.Emulsion.from_file(path)[0]
        finally:
            os.unlink(path)
    raise ValueError(route)


# --------------------------------------------------------------------------- repository test suite under monitors


def suite_shard(prop, tier, seed):
    """Shard spec: the repository's own tests executed with this property's input-agnostic monitor on."""
    return {"name": "suite", "kind": "suite", "seed": seed, "tier": tier, "timeout_s": 1500}


def run_suite(prop, rec):
    """Run ``pytest <repo>/tests`` with ``vmon.suite_plugin`` and merge what its recorder observed."""
    import json
    import os
    import subprocess
    import sys
    from pathlib import Path

    scratch = Path(os.environ.get("VERIF_SCRATCH") or "/tmp")
    out = scratch / f"suite_{prop}_{os.getpid()}.json"
    env = dict(os.environ)
    env.update({"VMON_SUITE_PROP": prop, "VMON_SUITE_OUT": str(out),
                "PYTHONPATH": os.pathsep.join([str(core.ROOT), str(core.DEPS), str(core.REPO)])})
    cmd = [sys.executable, "-m", "pytest", str(core.REPO / "tests"), "-q", "-p", "vmon.suite_plugin", "-p", "no:cacheprovider",
           "--timeout=900", "-o", "addopts="]
    try:
        p = subprocess.run(cmd, cwd=str(core.REPO), env=env, capture_output=True, text=True, timeout=1400)
        rec.note("suite_returncode", p.returncode)
        rec.note("suite_summary", (p.stdout.strip().splitlines() or [""])[-1][:200])
    except subprocess.TimeoutExpired:
        rec.harness_error("suite run hit its watchdog")
        return
    if not out.exists():
        rec.harness_error("suite run left no recorder dump: " + (p.stdout[-300:] + p.stderr[-300:]))
        return
    d = json.loads(out.read_text())
    z = np.load(str(out) + ".npz")
    rec.absorb(d, z["nontrivial"], z["trivial"])
    rec.count("suite_runs")
