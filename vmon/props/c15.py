"""C15 - results do not depend on the number of worker processes or on scheduling.

Monitor: delay-injecting, event-logging wrapper bound onto the per-task function
(``image_analysis.refine_droplet`` resp. ``image_analysis.locate_droplets``), active only in
worker pids; every task start/finish is appended (O_APPEND, one JSON line) to a log with
``time.monotonic_ns()``, so the completion permutation that was actually forced is
*observed*, not assumed.  Oracle: bitwise equality (order, class, parameter bytes) with the
serial result; repeated calls return identical bytes.
"""

from __future__ import annotations

import functools
import hashlib
import json
import os
import time
from pathlib import Path

import numpy as np

from ..oracles import geom
from . import common
from .c08 import snap

ID = "C15"
MAX_JOBS = 4
SERIAL_SHARDS = True  # limits concurrent shards to MAX_JOBS (each shard starts process pools)
RULE = (
    "cases: refine = noisy 2-D/3-D images of 3..8 droplets located with refine=True under "
    "num_processes in {2,3,5,'auto'} and a forced completion schedule (reversed, rotated, random "
    "permutation, one straggler; per-task delays 15-60 ms >> task time), compared bitwise with "
    "num_processes=1; storage = EmulsionTimeCourse.from_storage over 3..8 stored frames (incl. "
    "frames without droplets, optional refine and explicit least_squares_params) under the same "
    "schedules; repeat = every deterministic entry point (locate, refine, structure factor, length "
    "scale, tracking, rendering) called twice on the same input and a third time after unrelated analyses with "
    "other options (fit parameters, thresholds, modes) were run in between. Non-trivial = pool case whose "
    "observed completion order is not the submission order, or a repeat case with >=1 droplet. "
    "Distinct = digest of the case."
)
ASSUMPTIONS = [
    "worker processes are forked, so they inherit the rebound module attribute (verified: events from worker pids are required)",
    "a run that observed fewer than 3 distinct non-identity completion permutations is inconclusive",
    "watchdog: 120 s per pool => inconclusive, never a violation",
]
REQUIRED_MONITORS = {"pool:tasks-observed-in-workers": 30, "post:parallel-equals-serial": 10, "post:repeatable": 30}
MIN_NONTRIVIAL = 8
MIN_DISTINCT_PERMUTATIONS = 3

_sched = {"delays": {}, "log": None, "parent": os.getpid()}


def _key_of(args):
    """Task identity: digest of the bytes of the task's varying argument."""
    for a in args[::-1]:
        data = getattr(a, "data", None)
        if data is not None:
            return hashlib.blake2b(np.ascontiguousarray(data).tobytes(), digest_size=8).hexdigest()
    return "?"


def _make_wrapper(orig, which):
    @functools.wraps(orig)
    def wrapper(*args, **kwargs):
        if os.getpid() == _sched["parent"] or _sched["log"] is None:
            return orig(*args, **kwargs)
        key = _key_of(args[1:2] if which == "refine" else args[0:1])
        fd = os.open(_sched["log"], os.O_WRONLY | os.O_APPEND | os.O_CREAT)
        try:
            os.write(fd, (json.dumps({"pid": os.getpid(), "task": key, "ev": "start", "t": time.monotonic_ns()}) + "\n").encode())
            delay = _sched["delays"].get(key, 0.0)
            if delay:
                time.sleep(delay)
            try:
                return orig(*args, **kwargs)
            finally:
                os.write(fd, (json.dumps({"pid": os.getpid(), "task": key, "ev": "end", "t": time.monotonic_ns()}) + "\n").encode())
        finally:
            os.close(fd)

    return wrapper


class Injector:
    """Installs the wrappers for the lifetime of a shard."""

    def __enter__(self):
        import droplets
        from droplets import image_analysis as ia

        self.ia = ia
        self.saved = (ia.refine_droplet, ia.locate_droplets, droplets.locate_droplets)
        ia.refine_droplet = _make_wrapper(ia.refine_droplet, "refine")
        ia.locate_droplets = _make_wrapper(ia.locate_droplets, "locate")
        droplets.locate_droplets = ia.locate_droplets
        _sched["parent"] = os.getpid()
        return self

    def __exit__(self, *a):
        import droplets

        self.ia.refine_droplet, self.ia.locate_droplets, droplets.locate_droplets = self.saved


def plan(tier, seed):
    if tier == "quick":
        kinds = {"refine": 28, "storage": 32, "repeat": 160, "huge": 1, "failing": 6, "userclass": 4}
        per = 8
    else:
        kinds = {"refine": 900, "storage": 600, "repeat": 4000, "huge": 12, "failing": 120, "userclass": 60}
        per = 60
    sh = common.shards({k: v for k, v in kinds.items() if k != "repeat"}, per_shard=per, tier=tier, seed=seed, timeout_s=3000)
    sh += common.shards({"repeat": kinds["repeat"]}, per_shard=per * 5, tier=tier, seed=seed, timeout_s=3000)
    return sh


def _emulsion_field(rng, dim, k, noise):
    if dim == 3 and rng.random() < 0.5:
        # cylindrical grid with dz != dr: on-axis droplets (all frames of a storage share the grid object)
        nr, nz = int(rng.integers(8, 13)), int(rng.integers(30, 44))
        hz = float(rng.choice([0.5, 0.8, 1.25]))
        spec = {"family": "cyl", "radius": float(nr), "bounds_z": [0.0, hz * nz], "shape": [nr, nz], "periodic_z": False}
        drops, z = [], 5.0 * hz
        for _ in range(k):
            R = float(rng.uniform(2.0, 3.0))
            z += R + 2.0
            if z + R + 3.0 > hz * nz:
                break
            drops.append({"cls": "DiffuseDroplet", "pos": [0.0, 0.0, z], "radius": R, "width": float(rng.uniform(0.7, 1.1)), "amps": None})
            z += R + 4.0
        return {"grid": spec, "droplets": drops, "noise": noise, "seed": int(rng.integers(1 << 30))}
    n = {2: int(rng.integers(28, 44)), 3: int(rng.integers(14, 18))}[dim]
    spec = {"family": "cart", "bounds": [[0.0, float(n)]] * dim, "shape": [n] * dim,
            "periodic": [bool(rng.integers(0, 2)) for _ in range(dim)]}
    drops = []
    for _ in range(200):
        if len(drops) >= k:
            break
        R = float(rng.uniform(2.0, 3.5))
        c = rng.uniform(R + 2, n - R - 2, dim)
        if all(np.linalg.norm(c - np.asarray(d["pos"])) > R + d["radius"] + 3 for d in drops):
            drops.append({"cls": "DiffuseDroplet", "pos": c.tolist(), "radius": R, "width": float(rng.uniform(0.7, 1.3)), "amps": None})
    return {"grid": spec, "droplets": drops, "noise": noise, "seed": int(rng.integers(1 << 30))}


def gen(rng, kind, tier):
    sched = str(rng.choice(["reversed", "rotated", "random", "straggler"]))
    nproc = [2, 3, 5, "auto"][int(rng.integers(4))]
    if kind == "userclass":
        # candidates of a class the user derived from DiffuseDroplet, whose rendering depends on a class attribute that
        # the session sets at run time
        n = int(rng.integers(24, 40))
        return {"n": n, "stretch": float(rng.choice([1.6, 0.7, 2.0])), "num_processes": nproc, "seed": int(rng.integers(1 << 30)),
                "k": int(rng.integers(2, 5))}
    if kind == "failing":
        # a request whose serial execution raises (a NaN pixel inside one droplet, or solver options that do not go
        # with bounds): "the same result whatever the number of processes" includes that outcome
        f = _emulsion_field(rng, 2, int(rng.integers(3, 6)), 0.0)
        return {"field": f, "num_processes": nproc, "how": str(rng.choice(["nan-pixel", "nan-pixel", "method-lm"])),
                "victim": int(rng.integers(0, 8))}
    if kind == "refine":
        dim = int(rng.choice([2, 2, 3]))
        k = int(rng.integers(3, 9)) if dim == 2 else int(rng.integers(3, 5))
        if rng.random() < 0.12:
            k = 0  # a frame without droplets: nothing to refine, whatever the process count
        f = _emulsion_field(rng, dim, k, 0.05 if k else 0.0)
        opts = {"modes": int(rng.choice([0, 0, 2])) if dim == 2 else 0}
        if rng.random() < 0.4:
            opts["interface_width"] = float(rng.choice([0.5, 1.0, 1.5]))  # candidates then carry a width already
        if f["grid"]["family"] == "cart" and k and rng.random() < 0.5:
            # a droplet at the resolution limit, and a minimal radius that separates its estimate from its fit
            n = f["grid"]["shape"][0]
            for _ in range(100):
                R = float(rng.uniform(1.3, 1.8))
                c = rng.uniform(R + 2, n - R - 2, dim)
                if all(np.linalg.norm(c - np.asarray(d["pos"])) > R + d["radius"] + 3 for d in f["droplets"]):
                    f["droplets"].append({"cls": "DiffuseDroplet", "pos": c.tolist(), "radius": R, "width": 1.0, "amps": None})
                    f["noise"] = 0.0 if rng.random() < 0.5 else 0.02
                    opts["minimal_radius"] = "between" if rng.random() < 0.8 else float(rng.uniform(1.2, 1.9))
                    break
        r = rng.random()
        if r < 0.3:
            opts["refine_args"] = {"vmin": None, "vmax": None}
        elif r < 0.6:
            opts["refine_args"] = {"least_squares_params": {"max_nfev": 30}, "tolerance": 1e-9}
        if f["grid"]["family"] == "cart" and rng.random() < 0.3:
            # round 7 (C15_20): the same picture on a grid whose spacing and origin are not dyadic numbers (cells of 0.3
            # starting at 0.7): every length of the request is expressed in that unit
            hh, oo = float(rng.choice([0.3, 0.7, 1.3])), float(rng.choice([0.7, -3.1, 11.9]))
            nn = f["grid"]["shape"][0]
            f["grid"]["bounds"] = [[oo, oo + hh * nn] for _ in range(dim)]
            for d in f["droplets"]:
                d["pos"] = [oo + hh * x for x in d["pos"]]
                d["radius"] *= hh
                d["width"] *= hh
            if "interface_width" in opts:
                opts["interface_width"] *= hh
            if isinstance(opts.get("minimal_radius"), float):
                opts["minimal_radius"] *= hh
        return {"field": f, "opts": opts, "schedule": sched, "num_processes": nproc, "sched_seed": int(rng.integers(1 << 30))}
    if kind == "storage":
        dim = 2 if rng.random() < 0.75 else 3
        n = int(rng.integers(3, 9))
        frames = []
        for i in range(n):
            k = 0 if rng.random() < 0.2 else int(rng.integers(1, 4))
            frames.append(_emulsion_field(rng, dim, k, 0.02))
        for fr in frames[1:]:
            fr["grid"] = frames[0]["grid"]
        tmode = "unique"
        r_t = rng.random()
        if r_t < 0.2:
            tmode = "restart"  # two runs appended: the time stamps repeat
        ripening = bool(rng.random() < 0.3 and n >= 2)
        if ripening:
            # slow ripening: consecutive frames that agree to ~1e-6 but are not identical
            if not frames[0]["droplets"]:
                frames[0] = _emulsion_field(rng, dim, int(rng.integers(1, 4)), 0.0)
                for fr in frames[1:]:
                    fr["grid"] = frames[0]["grid"]
            base = frames[0]
            for k in range(1, n):
                fr = json.loads(json.dumps(base))
                for dd in fr["droplets"]:
                    dd["radius"] = dd["radius"] * (1 + 2e-6 * k)
                fr["noise"] = 0.0
                frames[k] = fr
            frames[0]["noise"] = 0.0
        refine = bool(rng.random() < 0.6)
        opts = {"refine": refine}
        r = rng.random()
        if refine and r < 0.35:
            opts["refine_args"] = {"least_squares_params": {"max_nfev": 25}}
        elif refine and r < 0.7:
            # automatic (and possibly fitted) intensity levels: every frame has its own extrema
            opts["refine_args"] = {"vmin": None, "vmax": None}
            if rng.random() < 0.5:
                opts["refine_args"]["adjust_values"] = True
            for fr in frames:
                fr["levels"] = [float(rng.uniform(-0.2, 0.2)), float(rng.uniform(0.7, 1.4))]
        if ripening:
            opts = {"refine": True}
            for fr in frames:
                fr.pop("levels", None)
        return {"frames": frames, "opts": opts, "schedule": sched, "num_processes": nproc, "sched_seed": int(rng.integers(1 << 30)),
                "time_mode": tmode}
    if kind == "huge":
        # one very large droplet (fit region of > 50 000 support points) next to a small one
        return {"n": 300, "radius": float(rng.uniform(128, 134)), "seed": int(rng.integers(1 << 30)), "num_processes": 2}
    if kind == "repeat":
        dim = int(rng.choice([1, 2, 2, 3])) if False else int(rng.choice([2, 2, 3]))
        return {"field": _emulsion_field(rng, dim, int(rng.integers(1, 5)), float(rng.choice([0.0, 0.05]))),
                "what": str(rng.choice(["locate", "locate-refine", "locate-refine", "structure", "length", "tracking", "render"])),
                "interfere_seed": int(rng.integers(1 << 30))}
    raise ValueError(kind)


def make_field(fd):
    import droplets
    from pde import ScalarField

    from .c03 import make_droplet

    grid = geom.make_grid(fd["grid"])
    em = droplets.Emulsion([make_droplet(d) for d in fd["droplets"]])
    data = np.asarray(em.get_phasefield(grid).data, float)
    if fd.get("levels"):
        data = fd["levels"][0] + (fd["levels"][1] - fd["levels"][0]) * data
    if fd["noise"]:
        data = data + np.random.default_rng(fd["seed"]).normal(0, fd["noise"], data.shape)
    return ScalarField(grid, data)


def delays_for(keys, schedule, seed):
    n = len(keys)
    r = np.random.default_rng(seed)
    unit = 0.02
    if schedule == "reversed":
        rank = list(range(n))[::-1]
    elif schedule == "rotated":
        s = int(r.integers(1, max(2, n)))
        rank = [(i + s) % n for i in range(n)]
    elif schedule == "random":
        rank = list(r.permutation(n))
    else:  # one straggler: the first task finishes last
        rank = [n] + [0] * (n - 1)
    return {k: 0.015 + unit * float(rk) for k, rk in zip(keys, rank)}


def read_log(path):
    ev = []
    if os.path.exists(path):
        for line in Path(path).read_text().splitlines():
            try:
                ev.append(json.loads(line))
            except Exception:  # noqa: BLE001
                pass
    return ev


def completion_permutation(events, keys):
    ends = sorted((e["t"], e["task"]) for e in events if e["ev"] == "end")
    order = [keys.index(k) for _, k in ends if k in keys]
    return order


def run_pool_case(case, rec, which):
    import droplets
    from droplets import image_analysis as ia
    from pde.storage import MemoryStorage

    scratch = Path(os.environ.get("VERIF_SCRATCH") or "/tmp")
    log = str(scratch / f"c15_{os.getpid()}_{time.monotonic_ns()}.log")
    label = f"{which} schedule={case['schedule']} num_processes={case['num_processes']} opts={case['opts']}"
    if which == "refine":
        field = make_field(case["field"])
        kw = {"refine": True, "modes": case["opts"].get("modes", 0)}
        if case["opts"].get("refine_args"):
            kw["refine_args"] = json.loads(json.dumps(case["opts"]["refine_args"]))
        ckw = {}
        if case["opts"].get("interface_width") is not None:
            kw["interface_width"] = ckw["interface_width"] = case["opts"]["interface_width"]
        mr = case["opts"].get("minimal_radius")
        if mr == "between":
            # the minimal radius lies between the smallest droplet's thresholding estimate and its fitted radius
            # (both taken from an unjudged serial preview), so that the request decides whether it is kept
            pre = common.monitored(rec, "preview:locate_droplets", lambda: (
                droplets.locate_droplets(field, modes=kw["modes"], **ckw),
                droplets.locate_droplets(field, num_processes=1, **json.loads(json.dumps(kw)))))
            mr = None
            if pre.ok and len(pre.result[0]) and len(pre.result[0]) == len(pre.result[1]):
                est, fit = pre.result
                i = int(np.argmin([d.radius for d in est]))
                j = int(np.argmin([np.linalg.norm(np.asarray(d.position) - np.asarray(est[i].position)) for d in fit]))
                mr = float((est[i].radius + fit[j].radius) / 2)
                rec.count("minimal_radius_between_estimate_and_fit" if est[i].radius != fit[j].radius else "minimal_radius_at_estimate")
        if mr is not None:
            kw["minimal_radius"] = ckw["minimal_radius"] = mr
            label += f" minimal_radius={mr!r}"

        def call(nproc):
            k = dict(kw)
            if "refine_args" in k:
                k["refine_args"] = json.loads(json.dumps(k["refine_args"]))
            return droplets.locate_droplets(field, num_processes=nproc, **k)

        cands = droplets.locate_droplets(field, modes=kw["modes"], **ckw)
        # the task key is the candidate's data as it reaches refine_droplet
        keys = [hashlib.blake2b(np.ascontiguousarray(c.data).tobytes(), digest_size=8).hexdigest() for c in cands]
    else:
        fields = [make_field(fd) for fd in case["frames"]]
        if case.get("time_mode") == "restart":
            m = max(1, len(fields) // 2)
            tlist = [float(i % m) * 0.5 for i in range(len(fields))]
            rec.count("storages_with_repeated_time_stamps")
        else:
            tlist = [float(i) * 0.5 for i in range(len(fields))]
        kw = {"refine": case["opts"]["refine"], "progress": False}
        if case["sched_seed"] % 4 == 1 and fields:
            # frames as an 8-bit camera stores them, kept in single precision, and a threshold that is one of the grey
            # levels (k/255, not representable in single precision): pixels exactly on the level must be treated alike
            # by the serial analysis and by the worker processes
            from pde import ScalarField

            fields = [ScalarField(f.grid, (np.round(np.clip(f.data, 0, 1) * 255) / 255).astype(np.float32), dtype=np.float32) for f in fields]
            vals = np.unique(np.concatenate([f.data.ravel() for f in fields]))
            mid = vals[(vals > 0.1) & (vals < 0.9)]
            if len(mid):
                kw["threshold"] = float(round(float(mid[len(mid) // 2]) * 255)) / 255
                rec.count("single_precision_storages_with_a_grey_level_as_threshold")
        storage = MemoryStorage.from_fields(times=tlist, fields=fields)
        if case["opts"].get("refine_args"):
            kw["refine_args"] = json.loads(json.dumps(case["opts"]["refine_args"]))

        def call(nproc):
            k = dict(kw)
            if "refine_args" in k:
                k["refine_args"] = json.loads(json.dumps(k["refine_args"]))
            return droplets.EmulsionTimeCourse.from_storage(storage, num_processes=nproc, **k)

        keys = [hashlib.blake2b(np.ascontiguousarray(f.data).tobytes(), digest_size=8).hexdigest() for f in fields]
    _sched["log"] = None
    serial = common.monitored(rec, f"{which}:serial", call, 1)
    if not rec.check(serial.ok, "no-exception", f"serial run raised {common.exc_text(serial.exc) if serial.exc else ''}; {label}"):
        rec.evaluated(nontrivial=False)
        return
    s_ser = snap(serial.result)
    if len(set(keys)) != len(keys):
        rec.count("duplicate_task_keys_skipped")
        return
    _sched["delays"] = delays_for(keys, case["schedule"], case["sched_seed"])
    _sched["log"] = log
    t0 = time.monotonic()
    par = common.monitored(rec, f"{which}:parallel", call, case["num_processes"])
    wall = time.monotonic() - t0
    _sched["log"] = None
    events = read_log(log)
    try:
        os.remove(log)
    except OSError:
        pass
    if wall > 120:
        rec.harness_error(f"pool watchdog: {wall:.0f}s")
        return
    if not rec.check(par.ok, "no-exception",
                     f"run with num_processes={case['num_processes']} raised {common.exc_text(par.exc) if par.exc else ''} "
                     f"although the serial run succeeded; {label}"):
        rec.evaluated(nontrivial=False)
        return
    worker_events = [e for e in events if e["pid"] != os.getpid()]
    rec.hit("pool:tasks-observed-in-workers", len([e for e in worker_events if e["ev"] == "end"]))
    perm = completion_permutation(worker_events, keys)
    rec.note_count("observed_permutations", "-".join(map(str, perm)))
    identity = perm == sorted(perm)
    s_par = snap(par.result)
    rec.check(s_par == s_ser, "parallel-equals-serial",
              f"result with num_processes={case['num_processes']} differs from the serial result "
              f"(observed completion order {perm}); {label}")
    if which == "refine" and len(cands) >= 1 and case["sched_seed"] % 2 == 0:
        # refine_droplets accepts any iterable of candidates: a one-shot generator must give the same
        # droplets as a list, serially and with worker processes
        _sched["log"] = None
        kw2 = dict(kw.get("refine_args") or {})
        kw2 = json.loads(json.dumps(kw2))
        lst = common.monitored(rec, "refine_droplets:list-serial", ia.refine_droplets, field, [c.copy() for c in cands],
                               num_processes=1, **json.loads(json.dumps(kw2)))
        gen_par = common.monitored(rec, "refine_droplets:generator-parallel", ia.refine_droplets, field,
                                   (c.copy() for c in cands), num_processes=case["num_processes"], **json.loads(json.dumps(kw2)))
        gen_ser = common.monitored(rec, "refine_droplets:generator-serial", ia.refine_droplets, field,
                                   (c.copy() for c in cands), num_processes=1, **json.loads(json.dumps(kw2)))
        if rec.check(lst.ok and gen_par.ok and gen_ser.ok, "no-exception",
                     f"refine_droplets raised {lst.exc!r} / {gen_par.exc!r} / {gen_ser.exc!r}; {label}"):
            a_, b_, c_ = (snap(droplets.Emulsion(x.result, copy=False)) for x in (lst, gen_par, gen_ser))
            rec.check(a_ == b_ == c_, "parallel-equals-serial",
                      f"refine_droplets: candidates given as a generator ({len(gen_par.result)} droplets with "
                      f"num_processes={case['num_processes']}, {len(gen_ser.result)} serially) vs list ({len(lst.result)}); {label}")
    if which == "refine" and case["sched_seed"] % 3 == 0:
        # the simulation goes on: the same field object now holds another image (changed in place), and the analysis is
        # repeated serially and with worker processes
        _sched["log"] = None
        shift = [max(1, n_ // 3) for n_ in field.data.shape]
        field.data[...] = np.roll(field.data, shift, axis=tuple(range(field.data.ndim)))[::-1]
        ser2 = common.monitored(rec, "refine:serial (same field object, new image)", call, 1)
        par2 = common.monitored(rec, "refine:parallel (same field object, new image)", call, case["num_processes"])
        if rec.check(ser2.ok and par2.ok, "no-exception", f"second analysis of the same field object raised {ser2.exc!r} / {par2.exc!r}; {label}"):
            rec.check(snap(par2.result) == snap(ser2.result), "parallel-equals-serial",
                      f"after the field object got a new image in place, the result with num_processes={case['num_processes']} "
                      f"({len(par2.result)} droplets) differs from the serial result ({len(ser2.result)} droplets); {label}")
            rec.count("fields_changed_in_place_between_parallel_analyses")
    rec.evaluated(nontrivial=bool(perm) and not identity)
    rec.count(f"{which}:nproc={case['num_processes']}|{case['schedule']}")
    if perm and not identity:
        rec.count("pools_with_non_identity_completion")
    rec.count(f"workers_used:{len({e['pid'] for e in worker_events})}")


def history_block(spec, rec):
    """First thing in a fresh process: reference results before any non-default call, then all
    interfering calls, then the same analyses again.  State that leaks from one call into later
    ones pollutes a process for good, so it is only visible at this first transition."""
    from .. import core

    rng = core.sub_rng(spec["seed"], ID, "history", spec["name"])
    cases = []
    for i in range(6):
        dim = int(rng.choice([2, 2, 3]))
        cases.append({"field": _emulsion_field(rng, dim, int(rng.integers(1, 4)), 0.05),
                      "what": ["locate-refine", "locate-refine", "length", "structure", "locate", "tracking"][i]})
    fields = [make_field(c["field"]) for c in cases]
    before = [common.monitored(rec, f"history:{c['what']}", _once, f, c["what"]) for c, f in zip(cases, fields)]
    n = 0
    for f in fields[:3]:
        for k in range(4):
            r = common.monitored(rec, "interfering-calls", interfere, f, 1000 + 7 * k)
            n += int(r.result or 0) if r.ok else 0
    rec.hit("interfering-calls-completed", n)
    for c, f, b in zip(cases, fields, before):
        with rec.case("history", {"field": c["field"], "what": c["what"], "kind": "history"}):
            a = common.monitored(rec, f"history:{c['what']}", _once, f, c["what"])
            if rec.check(a.ok and b.ok, "no-exception", f"{c['what']} raised {a.exc!r} / {b.exc!r}"):
                rec.check(a.result == b.result, "repeatable",
                          f"{c['what']} on the same input returned different bytes after unrelated analyses with other "
                          f"options had been run in the same process; {c['field']['grid']}")
            rec.evaluated(nontrivial=True)


def _once(field, what):
    import droplets

    if what in ("structure", "length") and type(field.grid).__name__ != "CartesianGrid" and type(field.grid).__name__ != "UnitGrid":
        what = "locate-refine"  # structure factors are only defined on Cartesian grids

    if what == "locate":
        return snap(droplets.locate_droplets(field))
    if what == "locate-refine":
        return snap(droplets.locate_droplets(field, refine=True))
    if what == "structure":
        k, s = droplets.get_structure_factor(field)
        return (np.asarray(k).tobytes(), np.asarray(s).tobytes())
    if what == "length":
        return tuple(float(droplets.get_length_scale(field, method=m)).hex()
                     for m in ("structure_factor_mean", "structure_factor_maximum"))
    if what == "tracking":
        em = droplets.locate_droplets(field)
        etc = droplets.EmulsionTimeCourse([em, em.copy(), em[:1]], times=[0.0, 1.0, 2.5])
        return snap(droplets.DropletTrackList.from_emulsion_time_course(etc, method="distance"))
    em = droplets.locate_droplets(field)
    return np.asarray(em.get_phasefield(field.grid).data).tobytes()


def run_repeat(case, rec):
    import droplets
    from droplets import image_analysis as ia

    field = make_field(case["field"])
    what = case["what"]

    def once():
        return _once(field, what)

    a = common.monitored(rec, f"repeat:{what}", once)
    b = common.monitored(rec, f"repeat:{what}", once)
    if rec.check(a.ok and b.ok, "no-exception", f"{what} raised {a.exc!r} / {b.exc!r}"):
        rec.check(a.result == b.result, "repeatable", f"two calls of {what} on the same input returned different bytes; {case['field']['grid']}")
    # results belong to the caller: scribbling over what a call returned must not change what the
    # next call on the same input returns (no internal cache may be handed out)
    scr = common.monitored(rec, "scribble", scribble, field, what)
    if scr.ok and scr.result:
        rec.hit("scribbled-results")
        d = common.monitored(rec, f"repeat:{what}", once)
        if a.ok and rec.check(d.ok, "no-exception", f"{what} raised {d.exc!r} after the caller modified an earlier result"):
            rec.check(a.result == d.result, "repeatable",
                      f"{what} on the same input returned different bytes after the caller had modified the arrays/"
                      f"droplets returned by an earlier call; {case['field']['grid']}")
    # history independence: unrelated analyses with other options in between must not change the
    # result of repeating the same analysis on the same input (no state may leak between calls)
    inter = common.monitored(rec, "interfering-calls", interfere, field, case.get("interfere_seed", 0))
    rec.hit("interfering-calls-completed", int(inter.result or 0) if inter.ok else 0)
    c = common.monitored(rec, f"repeat:{what}", once)
    if a.ok and rec.check(c.ok, "no-exception", f"{what} raised {c.exc!r} after unrelated calls"):
        rec.check(a.result == c.result, "repeatable",
                  f"{what} on the same input returned different bytes after unrelated analyses with other options had "
                  f"been run in between; {case['field']['grid']}")
    rec.evaluated(nontrivial=len(case["field"]["droplets"]) >= 1)
    rec.count(f"repeat:{what}")


def scribble(field, what):
    """Call the analysis once more and overwrite everything it returned (the caller owns it)."""
    import droplets

    if what in ("locate", "locate-refine"):
        em = droplets.locate_droplets(field, refine=(what == "locate-refine"))
        for d in em:
            d.position[...] = -7.0
            d.radius = d.radius + 3.0
        em.clear()
        return True
    if what == "structure":
        for kw in ({}, {"smoothing": None}, {"smoothing": None, "add_zero": True}):
            k, s = droplets.get_structure_factor(field, **kw)
            for arr in (k, s):
                arr = np.asarray(arr)
                if arr.flags.writeable:
                    arr[...] = -1.0
        return True
    if what == "render":
        em = droplets.locate_droplets(field)
        f = em.get_phasefield(field.grid)
        f.data[...] = np.nan
        for d in em:
            g = d.get_phase_field(field.grid)
            g.data[...] = np.nan
        return True
    if what == "tracking":
        em = droplets.locate_droplets(field)
        etc = droplets.EmulsionTimeCourse([em, em.copy(), em[:1]], times=[0.0, 1.0, 2.5])
        for tr in droplets.DropletTrackList.from_emulsion_time_course(etc, method="distance"):
            for d in tr.droplets:
                d.radius = d.radius + 1.0
            tr.times[:] = [-1.0] * len(tr.times)
        return True
    return False


def interfere(field, seed):
    """Unrelated analyses with non-default options (their own outcome is not judged here)."""
    import droplets
    from droplets import image_analysis as ia

    r = np.random.default_rng(seed)
    other = field.copy()
    other.data[...] = r.normal(0.5, 0.4, other.data.shape)
    done = 0
    calls = [
        lambda: droplets.locate_droplets(field, threshold="otsu", minimal_radius=0.7, refine=True,
                                         refine_args={"least_squares_params": {"max_nfev": 7, "method": "dogbox"},
                                                      "tolerance": 1e-3, "vmin": None, "vmax": None}),
        lambda: droplets.locate_droplets(other, threshold="mean", interface_width=0.4, refine=True,
                                         refine_args={"adjust_values": True, "least_squares_params": {"xtol": 1e-2, "loss": "soft_l1"}}),
        lambda: droplets.locate_droplets(field, threshold=0.3, modes=2 if field.grid.dim == 2 else 0, refine=True,
                                         refine_args={"tolerance": 1e-2}),
        lambda: droplets.get_structure_factor(other, smoothing=0.3, wave_numbers=[0.5, 1.0], add_zero=True),
        lambda: droplets.get_length_scale(other, method="structure_factor_maximum", smoothing=0.2),
        lambda: droplets.get_length_scale(field, method="droplet_detection", threshold="mean"),
        lambda: ia.refine_droplet(other, droplets.DiffuseDroplet(np.full(field.grid.dim, 5.0), 2.0, 0.8),
                                  least_squares_params={"ftol": 1e-1}),
    ]
    try:
        # the same image on a grid of the same shape and bounds whose axes are periodic where this one's are not
        import pde

        g = field.grid
        if type(g).__name__ in ("CartesianGrid", "UnitGrid"):
            sib = pde.CartesianGrid(g.axes_bounds, g.shape, periodic=[not p for p in g.periodic])
            sf = pde.ScalarField(sib, field.data)
            droplets.locate_droplets(sf, refine=True)
            droplets.Emulsion(droplets.locate_droplets(sf)).get_phasefield(sib)
            done += 1
    except Exception:  # noqa: BLE001
        pass
    for k in r.permutation(len(calls))[: int(r.integers(2, len(calls) + 1))]:
        try:
            calls[int(k)]()
            done += 1
        except Exception:  # noqa: BLE001 - not the subject of this clause
            pass
    return done


def run_huge(case, rec):
    import droplets
    import pde

    n = case["n"]
    grid = pde.UnitGrid([n, n])
    em = droplets.Emulsion([droplets.DiffuseDroplet([n / 2 + 0.3, n / 2 - 0.2], case["radius"], 1.3)])
    field = em.get_phasefield(grid)
    field.data += np.random.default_rng(case["seed"]).normal(0, 0.02, field.data.shape)
    a = common.monitored(rec, "huge:serial", lambda: snap(droplets.locate_droplets(field, refine=True)))
    b = common.monitored(rec, "huge:serial", lambda: snap(droplets.locate_droplets(field, refine=True)))
    c = common.monitored(rec, "huge:parallel", lambda: snap(droplets.locate_droplets(field, refine=True, num_processes=case["num_processes"])))
    if rec.check(a.ok and b.ok and c.ok, "no-exception", f"huge droplet: raised {a.exc!r} / {b.exc!r} / {c.exc!r}"):
        rec.check(a.result == b.result, "repeatable", f"refining a droplet of radius {case['radius']:.1f} cells twice gives different bytes")
        rec.check(a.result == c.result, "parallel-equals-serial",
                  f"refining a droplet of radius {case['radius']:.1f} cells with {case['num_processes']} workers differs from the serial result")
    rec.evaluated(nontrivial=True)
    rec.count("huge_fit_regions")


def run_userclass(case, rec):
    import droplets
    import pde
    from droplets import image_analysis as ia

    from . import usercls

    n = case["n"]
    r = np.random.default_rng(case["seed"])
    grid = pde.UnitGrid([n, n])
    old = usercls.Squashed.stretch
    usercls.Squashed.stretch = case["stretch"]  # configured by the session, not at import time
    try:
        truth, cands = [], []
        for j in range(case["k"]):
            c = np.array([n * (j + 0.5) / case["k"], n * float(r.uniform(0.35, 0.65))])
            R = float(r.uniform(1.8, 0.3 * n / case["k"] + 1.5))
            truth.append(usercls.Squashed(c, R, 1.0))
            cands.append(usercls.Squashed(c + r.uniform(-0.4, 0.4, 2), R * float(r.uniform(0.9, 1.1)), 1.2))
        data = np.clip(sum(t.get_phase_field(grid).data for t in truth), 0, 1)
        field = pde.ScalarField(grid, data)
        ser = common.monitored(rec, "userclass:serial", ia.refine_droplets, field, [c.copy() for c in cands], num_processes=1)
        par = common.monitored(rec, "userclass:parallel", ia.refine_droplets, field, [c.copy() for c in cands], num_processes=case["num_processes"])
    finally:
        usercls.Squashed.stretch = old
    label = f"{case['k']} candidates of a user-defined subclass (stretch set to {case['stretch']} at run time), num_processes={case['num_processes']}"
    if rec.check(ser.ok and par.ok, "no-exception", f"refine_droplets raised {ser.exc!r} / {par.exc!r}; {label}"):
        rec.check(snap(droplets.Emulsion(ser.result, copy=False)) == snap(droplets.Emulsion(par.result, copy=False)), "parallel-equals-serial",
                  f"results with worker processes differ from the serial ones: {[(d.radius, d.interface_width) for d in par.result]} vs "
                  f"{[(d.radius, d.interface_width) for d in ser.result]}; {label}")
    rec.count("pools_with_candidates_of_a_user_defined_subclass")
    rec.evaluated(nontrivial=True)


def run_failing(case, rec):
    import droplets
    from droplets import image_analysis as ia

    field = make_field(case["field"])
    cands = list(droplets.locate_droplets(field))
    if not cands:
        rec.count("failing:no_candidates")
        return
    kw = {}
    if case["how"] == "nan-pixel":
        v = cands[case["victim"] % len(cands)]
        cell = tuple(int(i) for i in np.asarray(field.grid.transform(np.asarray(v.position, float), "cartesian", "cell"), int))
        cell = tuple(min(max(c, 0), n - 1) for c, n in zip(cell, field.grid.shape))
        field.data[cell] = np.nan
    else:
        kw["least_squares_params"] = {"method": "lm"}
    label = f"failing request ({case['how']}), {len(cands)} candidates, num_processes={case['num_processes']}"
    ser = common.monitored(rec, "failing:serial", ia.refine_droplets, field, [c.copy() for c in cands], num_processes=1,
                           **json.loads(json.dumps(kw)))
    par = common.monitored(rec, "failing:parallel", ia.refine_droplets, field, [c.copy() for c in cands],
                           num_processes=case["num_processes"], **json.loads(json.dumps(kw)))
    if ser.ok:
        rec.count("failing:serial_run_did_not_raise")
        if par.ok:
            rec.check(snap(droplets.Emulsion(ser.result, copy=False)) == snap(droplets.Emulsion(par.result, copy=False)),
                      "parallel-equals-serial", f"results differ; {label}")
    else:
        rec.count(f"failing:serial_raises_{type(ser.exc).__name__}")
        rec.check(not par.ok, "parallel-equals-serial",
                  f"the serial run raises {type(ser.exc).__name__}: {str(ser.exc)[:80]}, the run with worker processes returns "
                  f"{len(par.result) if par.ok else '?'} droplets; {label}")
    rec.evaluated(nontrivial=not ser.ok)


def run(case, rec):
    if case["kind"] == "huge":
        return run_huge(case, rec)
    if case["kind"] == "failing":
        return run_failing(case, rec)
    if case["kind"] == "userclass":
        return run_userclass(case, rec)
    if case["kind"] == "refine":
        run_pool_case(case, rec, "refine")
    elif case["kind"] == "storage":
        run_pool_case(case, rec, "storage")
    else:
        run_repeat(case, rec)


def run_empty_storage(case, rec):
    """Round 7 (C15_19): a storage that holds the field description but no frame (a run that was stopped before its first
    output) gives the same, empty, time course - or the same refusal - whatever the number of worker processes."""
    import droplets
    from pde import MemoryStorage, ScalarField, UnitGrid

    storage = MemoryStorage()
    storage.start_writing(ScalarField(UnitGrid(case["shape"])))
    storage.end_writing()
    if len(storage) != 0:
        rec.harness_error("storage without frames is not empty")
        return
    ref = common.monitored(rec, "from_storage", droplets.EmulsionTimeCourse.from_storage, storage, num_processes=1, progress=False)
    for n in case["workers"]:
        c = common.monitored(rec, "from_storage", droplets.EmulsionTimeCourse.from_storage, storage, num_processes=n, progress=False)
        same = (c.ok == ref.ok) and (not c.ok or (len(c.result) == len(ref.result) and list(c.result.times) == list(ref.result.times)))
        rec.check(bool(same), "same-as-serial",
                  f"storage without frames on a {case['shape']} grid: num_processes={n!r} gives "
                  f"{'raised ' + repr(c.exc) if not c.ok else str(len(c.result)) + ' frames'}, num_processes=1 gives "
                  f"{'raised ' + repr(ref.exc) if not ref.ok else str(len(ref.result)) + ' frames'}")
    rec.count("storages_without_frames")
    rec.evaluated(nontrivial=True)


def run_shard(spec, rec):
    from droplets import emulsions
    from droplets import image_analysis as ia

    rec.watch(ia.refine_droplets, emulsions.EmulsionTimeCourse.from_storage)
    if spec["kind"] == "storage":
        case = {"shape": [8 + spec.get("start", 0) % 5, 8], "workers": [2, 3, "auto"]}
        with rec.case("empty-storage", case):
            try:
                run_empty_storage(case, rec)
            except Exception as e:  # noqa: BLE001
                rec.harness_error("empty-storage", e)
    with Injector():
        if spec["kind"] == "repeat":
            try:
                history_block(spec, rec)
            except Exception as e:  # noqa: BLE001
                rec.harness_error("history_block", e)
        common.run_generated(spec, rec, gen, run, ID)


def replay(v, rec):
    with Injector():
        with rec.case(v["kind"], v["case"]):
            if v["kind"] == "history":
                # only meaningful in a fresh process: reference first, interference, then again
                c = v["case"]
                f = make_field(c["field"])
                b = common.monitored(rec, f"history:{c['what']}", _once, f, c["what"])
                for k in range(4):
                    common.monitored(rec, "interfering-calls", interfere, f, 1000 + 7 * k)
                a = common.monitored(rec, f"history:{c['what']}", _once, f, c["what"])
                if rec.check(a.ok and b.ok, "no-exception", f"{c['what']} raised"):
                    rec.check(a.result == b.result, "repeatable", f"{c['what']} differs after unrelated analyses")
            elif v["kind"] == "empty-storage":
                run_empty_storage(v["case"], rec)
            else:
                run(v["case"], rec)


def post_merge(merged, inconclusive):
    """Called by the driver after merging shards: enough distinct forced schedules observed?"""
    perms = merged["notes"].get("observed_permutations", {}) or {}
    non_id = [p for p in perms if p and p.split("-") != sorted(p.split("-"), key=int)]
    merged["notes"]["distinct_non_identity_permutations"] = len(non_id)
    if len(non_id) < MIN_DISTINCT_PERMUTATIONS:
        inconclusive.append(f"only {len(non_id)} distinct non-identity completion permutations were observed")
