"""C08 - saving and loading returns an equal object.

Monitor: paired wrapper around ``X.to_file(path)`` / ``type(X).from_file(path)`` of the four
collection types; a structural snapshot (classes, dtypes, parameter bytes, times) is taken
before writing and compared with the snapshot of what was read.
"""

from __future__ import annotations

import math
import os
from pathlib import Path

import numpy as np

from . import common

ID = "C08"
RULE = (
    "cases = one collection (Emulsion | EmulsionTimeCourse | DropletTrack | DropletTrackList) "
    "built from spherical/diffuse droplets (d=1..3), perturbed 2-D (1..6 modes), 3-D (1..15), "
    "axisymmetric (1..4); sizes {0,1,2,3,7,12,13}; widths None/0/positive; zero radii; time "
    "lists of ints, floats, negative, non-uniform, passing through 0, 1e300, 2^53, restarting, decreasing, unordered with ties; time courses "
    "and track lists mixing empty and non-empty members and members of different classes; and "
    "hostile collections mixing classes, mode counts or dimensions inside one member (these may "
    "raise on writing but must not read back different). Non-trivial = collection with >=2 "
    "droplets, or an unset width, or an empty member among non-empty ones. Distinct = digest of "
    "the case description."
)
ASSUMPTIONS = [
    "h5py/HDF5 store float64/int64 values exactly",
    "times are restricted to values exactly representable as float64",
    "NaN (unset width) is equal to NaN",
    "homogeneous collections of the listed classes are in the domain where the round trip is "
    "promised, so failing to write or read them is a violation; hostile mixed collections may raise",
]
REQUIRED_MONITORS = {"post:roundtrip-equal": 200, "call:to_file": 200, "call:from_file": 200}
MIN_NONTRIVIAL = 100

TYPES = ["Emulsion", "EmulsionTimeCourse", "DropletTrack", "DropletTrackList"]


def plan(tier, seed):
    if tier == "quick":
        kinds = {"homogeneous": 3200, "hostile": 800}
        per = 400
    else:
        kinds = {"homogeneous": 120000, "hostile": 30000}
        per = 5000
    _out = common.shards(kinds, per_shard=per, tier=tier, seed=seed)
    if tier == "thorough":
        _out = _out + [common.suite_shard(ID, tier, seed)]  # the repository's own tests under this monitor
    return _out


# ------------------------------------------------------------------ generation


def _droplet_desc(rng, cls, dim, modes):
    pos = [float(x) for x in rng.normal(0, 10, dim)]
    if cls == "PerturbedDroplet3DAxisSym":
        pos[0] = pos[1] = 0.0
        if rng.random() < 0.25:
            pos[0], pos[1] = float(rng.choice([1e-12, -3e-11, 5e-10])), float(rng.choice([-2e-12, 4e-11]))  # on the axis up to round-off
    R = 0.0 if rng.random() < 0.07 else float(rng.lognormal(0, 1.5))
    d = {"cls": cls, "pos": pos, "radius": R, "width": None, "amps": None}
    if cls != "SphericalDroplet":
        wk = rng.random()
        d["width"] = None if wk < 0.3 else (0.0 if wk < 0.4 else float(rng.lognormal(0, 1)))
    if cls.startswith("Perturbed"):
        d["amps"] = [float(a) for a in rng.uniform(-1, 1, modes)]
    return d


def _layout(rng):
    cls = str(rng.choice(["SphericalDroplet", "DiffuseDroplet", "DiffuseDroplet", "PerturbedDroplet2D",
                          "PerturbedDroplet3D", "PerturbedDroplet3DAxisSym"]))
    if cls in ("SphericalDroplet", "DiffuseDroplet"):
        return cls, int(rng.integers(1, 4)), 0
    if cls == "PerturbedDroplet2D":
        return cls, 2, int(rng.integers(1, 7))
    if cls == "PerturbedDroplet3D":
        return cls, 3, int(rng.integers(1, 16))
    return cls, 3, int(rng.integers(1, 5))


def _size(rng):
    if rng.random() < 0.0015:
        return int(rng.choice([4097, 5000, 9000]))  # thousands of droplets (a foam, a long track)
    return int(rng.choice([0, 1, 1, 2, 2, 3, 7, 12, 13]))


def _times(rng, n, big_ints=False):
    if big_ints and rng.random() < 0.1:
        # nanosecond epoch stamps (exact as integers, not as float64) - time courses keep times as attributes
        t0 = 1_700_000_000_123_456_789
        return [int(t0 + i * int(rng.integers(1, 1000))) for i in range(n)]
    mode = int(rng.integers(0, 10))
    if mode == 7:  # not monotonic: two runs appended, time restarts (also gives repeated values)
        k = max(1, n // 2)
        step = float(rng.choice([0.1, 0.5, 1.0]))
        t = [float(i % k) * step for i in range(n)]
    elif mode == 8:  # decreasing
        t = [float(x) for x in sorted(rng.uniform(-50, 50, n), reverse=True)]
    elif mode == 9:  # arbitrary order with ties
        t = [float(x) for x in rng.integers(-3, 4, n)]
        if n and rng.random() < 0.5:
            t = [0] + [float(i) * 0.25 + 0.25 for i in range(n - 1)]  # an integer first, fractional afterwards
    elif mode == 0:
        t = list(range(n))
    elif mode == 1:
        t = [int(x) for x in np.cumsum(rng.integers(1, 5, n)) - int(rng.integers(0, 20))]
    elif mode == 2:
        t = [float(x) for x in np.cumsum(rng.uniform(0.01, 3.0, n)) - float(rng.uniform(0, 10))]
    elif mode == 3:  # passes through exactly 0 at a later position
        k = int(rng.integers(0, max(1, n)))
        step = float(rng.choice([0.25, 0.75, 1.0, 2.5]))
        t = [(i - k) * step for i in range(n)]
    elif mode == 4:
        t = [float(x) for x in sorted(rng.uniform(-1e300, 1e300, n))]
    elif mode == 5:
        t = [int(2 ** 53 - n + i) for i in range(n)]
    else:
        t = [float(x) for x in sorted(rng.normal(0, 1e-8, n))]
    return t


def gen(rng, kind, tier):
    case = _gen(rng, kind, tier)
    if case is not None and rng.random() < 0.12:
        case["overwrite"] = True  # the path already holds an earlier, longer collection of the same kind
    elif case is not None and rng.random() < 0.15:
        # file names without an HDF5 extension that contain a dot (a parameter value), next to a sibling file whose
        # name differs only behind that dot
        case["dotted_name"] = str(rng.choice(["phi0.25", "run_3.emulsions", "T1.5e-3", "a.b.c"]))
    if case is not None and case["type"] == "Emulsion" and rng.random() < 0.15:
        case["stale_dtype"] = True  # emulsion created empty for another droplet class and filled afterwards
    if case is not None and case["type"] in ("Emulsion", "EmulsionTimeCourse") and rng.random() < 0.15:
        case["linked_then_edited"] = int(rng.integers(3))  # data linked into one array, members rearranged afterwards
    if case is not None and rng.random() < 0.3:
        # additional information stored alongside (documented argument of to_file)
        case["info"] = [{"note": "run 7"}, {"time_000000": 1, "track_000000": [1, 2]}, {"emulsion": {"a": None}},
                        {"droplet_track": "x", "droplet_class": "None"}][int(rng.integers(4))]
    if case is not None and not case.get("stale_dtype"):
        flat = [d for ms in _all_members(case) for d in ms]
        if flat and all(d["cls"] == "SphericalDroplet" for d in flat) and rng.random() < 0.4:
            # round 7 (C08_19): the droplets belong to a class the user derived from SphericalDroplet inside a function
            # (a factory), as the documentation of the class registry allows; it is written and read like any other
            for d in flat:
                d["user_nested"] = True
    return case


_NESTED: list = []


def _nested_cls():
    if not _NESTED:
        def factory():
            from droplets import SphericalDroplet

            class SphereFromFactory(SphericalDroplet):
                """user-defined droplet class with the layout of its parent, defined in a nested scope"""

            return SphereFromFactory

        _NESTED.append(factory())
    return _NESTED[0]


def _gen(rng, kind, tier):
    typ = str(rng.choice(TYPES))
    hostile = kind == "hostile"

    def members(n, layout):
        cls, dim, modes = layout
        out = [_droplet_desc(rng, cls, dim, modes) for _ in range(n)]
        if hostile and n >= 2:
            h = int(rng.integers(0, 5))
            i = int(rng.integers(1, n))
            if h == 4 and cls.startswith("Perturbed") and n >= 3 and modes >= 2:
                # first and last member alike, one member in between with a single amplitude (which numpy would broadcast)
                out[int(rng.integers(1, n - 1))] = _droplet_desc(rng, cls, dim, 1)
            elif h == 0 or h == 4:  # different class, same dimension
                alt = {1: ["SphericalDroplet", "DiffuseDroplet"], 2: ["SphericalDroplet", "DiffuseDroplet", "PerturbedDroplet2D"],
                       3: ["SphericalDroplet", "DiffuseDroplet", "PerturbedDroplet3D", "PerturbedDroplet3DAxisSym"]}[dim]
                c2 = str(rng.choice([a for a in alt if a != cls] or alt))
                out[i] = _droplet_desc(rng, c2, dim, max(1, modes))
            elif h == 1 and cls.startswith("Perturbed"):  # different mode count
                m2 = modes + int(rng.choice([-1, 1, 2]))
                out[i] = _droplet_desc(rng, cls, dim, max(1, m2) if max(1, m2) != modes else modes + 1)
            elif h == 2 and not cls.startswith("Perturbed"):  # different dimension
                out[i] = _droplet_desc(rng, cls, dim % 3 + 1, 0)
            elif cls in ("PerturbedDroplet3D", "PerturbedDroplet3DAxisSym"):  # same layout, other class
                c2 = "PerturbedDroplet3DAxisSym" if cls == "PerturbedDroplet3D" else "PerturbedDroplet3D"
                out[i] = _droplet_desc(rng, c2, 3, modes)
        return out

    if typ == "Emulsion":
        return {"type": typ, "members": members(_size(rng), _layout(rng))}
    if typ == "DropletTrack":
        n = _size(rng)
        return {"type": typ, "members": members(n, _layout(rng)), "times": _times(rng, n)}
    if typ == "EmulsionTimeCourse":
        n = _size(rng)
        same = rng.random() < 0.6
        lay = _layout(rng)
        frames = []
        for _ in range(n):
            k = 0 if rng.random() < 0.25 else int(rng.integers(1, 5))
            frames.append(members(k, lay if same else _layout(rng)))
        return {"type": typ, "frames": frames, "times": _times(rng, n, big_ints=True)}
    n = _size(rng)
    same = rng.random() < 0.6
    lay = _layout(rng)
    tracks = []
    for _ in range(n):
        k = 0 if rng.random() < 0.2 else int(rng.integers(1, 6))
        tracks.append({"members": members(k, lay if same else _layout(rng)), "times": _times(rng, k)})
    return {"type": typ, "tracks": tracks}


# ------------------------------------------------------------------ building + snapshots


def _mk(d):
    from .c03 import make_droplet

    if d.get("user_nested"):
        return _nested_cls()(np.asarray(d["pos"], float), d["radius"])
    if d["cls"] == "PerturbedDroplet3DAxisSym" and (d["pos"][0] != 0 or d["pos"][1] != 0):
        # on the axis up to round-off, as left behind by an assignment or a fit (not by the constructor)
        obj = make_droplet({**d, "pos": [0.0, 0.0, d["pos"][2]]})
        obj.position = np.asarray(d["pos"], float)
        return obj
    return make_droplet(d)


def build(case):
    import droplets

    t = case["type"]
    if t == "Emulsion" and case.get("stale_dtype") and case["members"]:
        dim = len(case["members"][0]["pos"])
        em = droplets.Emulsion.empty(droplets.SphericalDroplet(np.zeros(dim), 1.0))
        em.extend([_mk(d) for d in case["members"]])
        return em
    if t == "Emulsion":
        return droplets.Emulsion([_mk(d) for d in case["members"]])
    if t == "DropletTrack":
        return droplets.DropletTrack([_mk(d) for d in case["members"]], times=list(case["times"]))
    if t == "EmulsionTimeCourse":
        return droplets.EmulsionTimeCourse([droplets.Emulsion([_mk(d) for d in fr]) for fr in case["frames"]],
                                           times=list(case["times"]))
    tl = droplets.DropletTrackList()
    for tr in case["tracks"]:
        tl.append(droplets.DropletTrack([_mk(d) for d in tr["members"]], times=list(tr["times"])))
    return tl


def _dsnap(d):
    raw = np.frombuffer(d.data.tobytes(), dtype=np.uint64).copy()
    vals = np.frombuffer(d.data.tobytes(), dtype=np.float64)
    raw[np.isnan(vals)] = 0x7FF8000000000000  # NaN == NaN whatever the payload
    return (type(d).__name__, str(d.data.dtype), raw.tobytes())


def _tsnap(t):
    # times compare by exact numerical value
    if isinstance(t, (int, np.integer)):
        return ("n", int(t))
    f = float(t)
    if f == int(f) and abs(f) < 2 ** 62:
        return ("n", int(f))
    return ("f", f.hex())


def snap(obj):
    import droplets

    if isinstance(obj, droplets.Emulsion):
        return ("E", [_dsnap(d) for d in obj])
    if isinstance(obj, droplets.DropletTrack):
        return ("T", [_tsnap(t) for t in obj.times], [_dsnap(d) for d in obj.droplets])
    if isinstance(obj, droplets.EmulsionTimeCourse):
        return ("C", [_tsnap(t) for t in obj.times], [snap(e) for e in obj.emulsions])
    if isinstance(obj, droplets.DropletTrackList):
        return ("L", [snap(t) for t in obj])
    raise TypeError(type(obj))


def _link_then_edit(obj, how):
    """get_linked_data() on (the frames of) the object, then rearrange members: what is written later must be the
    members as they are at that moment."""
    import droplets

    ems = [obj] if isinstance(obj, droplets.Emulsion) else list(obj.emulsions)
    done = 0
    for em in ems:
        if len(em) < 2 or len({str(d.data.dtype) for d in em}) > 1 or len({type(d) for d in em}) > 1:
            continue
        em.get_linked_data()
        if how == 0:
            em.reverse()
        elif how == 1:
            em[0], em[-1] = em[-1], em[0]
        else:
            em[0] = em[-1].copy()
        done += 1
    return done


def _write_longer(obj, path):
    """Leave an earlier file of the same kind with more entries at the path (its content is irrelevant)."""
    import droplets

    if isinstance(obj, droplets.EmulsionTimeCourse):
        extra = droplets.EmulsionTimeCourse(list(obj.emulsions) + [droplets.Emulsion([droplets.SphericalDroplet([1.0, 2.0], 0.5)])] * 3,
                                            times=list(obj.times) + [1e6, 1e6 + 1, 1e6 + 2])
        extra.to_file(path)
    elif isinstance(obj, droplets.DropletTrackList):
        extra = droplets.DropletTrackList(list(obj))
        for k in range(3):
            extra.append(droplets.DropletTrack([droplets.SphericalDroplet([1.0], 0.5 + k)], times=[float(k)]))
        extra.to_file(path)
    elif isinstance(obj, droplets.DropletTrack):
        droplets.DropletTrack([droplets.SphericalDroplet([1.0, 0.0, 0.0], 0.5 + k) for k in range(len(obj) + 3)],
                              times=list(range(len(obj) + 3))).to_file(path)
    else:
        droplets.Emulsion([droplets.SphericalDroplet([1.0, 0.0, 0.0], 0.5 + k) for k in range(len(obj) + 3)]).to_file(path)


def _all_members(case):
    t = case["type"]
    if t in ("Emulsion", "DropletTrack"):
        return [case["members"]]
    if t == "EmulsionTimeCourse":
        return case["frames"]
    return [tr["members"] for tr in case["tracks"]]


def is_homogeneous_members(ms):
    keys = {(d["cls"], len(d["pos"]), len(d["amps"] or [])) for d in ms}
    return len(keys) <= 1


def diff_text(a, b, depth=0):
    if type(a) is not type(b):
        return f"{a!r} vs {b!r}"[:300]
    if isinstance(a, (list, tuple)):
        if len(a) != len(b):
            return f"length {len(a)} vs {len(b)}"
        for i, (x, y) in enumerate(zip(a, b)):
            if x != y:
                return f"[{i}] " + diff_text(x, y, depth + 1)
        return "equal"
    if isinstance(a, bytes):
        return f"bytes {np.frombuffer(a, np.float64).tolist()} vs {np.frombuffer(b, np.float64).tolist()}"[:400]
    return f"{a!r} vs {b!r}"[:300]


def run(case, rec):
    import droplets

    scratch = Path(os.environ.get("VERIF_SCRATCH") or "/tmp")
    path = str(scratch / f"c08_{os.getpid()}.h5")
    sibling = None
    if case.get("dotted_name"):
        stem, _, tail = case["dotted_name"].rpartition(".")
        path = str(scratch / f"c08_{os.getpid()}_{stem}.{tail}")
        sibling = str(scratch / f"c08_{os.getpid()}_{stem}.{tail[::-1] + 'x'}")
        rec.count("dotted_file_names")
    built = common.monitored(rec, "construct", build, case)
    homogeneous = all(is_homogeneous_members(ms) for ms in _all_members(case))
    if not built.ok:
        if homogeneous:
            rec.harness_error(f"cannot construct {case['type']}: {built.exc!r}")
        else:
            rec.count("hostile_rejected_at_construction")
            rec.evaluated(nontrivial=False)
        return
    obj = built.result
    if case.get("linked_then_edited") is not None:
        ed = common.monitored(rec, "link-then-edit", _link_then_edit, obj, case["linked_then_edited"])
        if ed.ok and ed.result:
            rec.count("emulsions_linked_then_rearranged")
    if case.get("overwrite"):
        pre = common.monitored(rec, "earlier-write", _write_longer, obj, path)
        if pre.ok:
            rec.count("written_over_an_earlier_longer_file")
    before = snap(obj)
    info = case.get("info")
    if info is not None and case["type"] != "Emulsion":
        w = common.monitored(rec, "to_file", obj.to_file, path, info=dict(info))
        rec.count("written_with_info")
    else:
        w = common.monitored(rec, "to_file", obj.to_file, path)
    n_drop = sum(len(ms) for ms in _all_members(case))
    widths_unset = any(d.get("width") is None and d["cls"] != "SphericalDroplet" for ms in _all_members(case) for d in ms)
    empties = [len(ms) for ms in _all_members(case)]
    nontrivial = n_drop >= 2 or widths_unset or (0 in empties and any(empties))
    rec.count(f"type:{case['type']}|{'homogeneous' if homogeneous else 'hostile'}")
    label = f"{case['type']} {str(case)[:500]}"
    try:
        if not w.ok:
            if homogeneous:
                rec.check(False, "writable", f"to_file raised {common.exc_text(w.exc)} for a homogeneous collection; {label}")
            else:
                rec.count("hostile_write_raised")
            rec.evaluated(nontrivial=nontrivial)
            return
        rec.check(snap(obj) == before, "write-does-not-modify", f"to_file changed the object; {label}")
        if sibling is not None:
            # another object is written to the sibling name before the first one is read back
            common.monitored(rec, "to_file:sibling", droplets.Emulsion([droplets.SphericalDroplet([0.25], 1.0)]).to_file, sibling)
        r = common.monitored(rec, "from_file", type(obj).from_file, path)
        if not rec.check(r.ok, "readable",
                         f"to_file succeeded but from_file raised {common.exc_text(r.exc) if r.exc else ''}; {label}"):
            rec.evaluated(nontrivial=nontrivial)
            return
        after = snap(r.result)
        rec.check(after == before, "roundtrip-equal",
                  f"file reads back different: {diff_text(before, after)}; {label}")
        if after == before:
            eq = common.monitored(rec, "__eq__", lambda: bool(r.result == obj))
            rec.check(eq.ok and eq.result, "package-eq",
                      f"structurally identical, yet the package's == says {eq.result if eq.ok else eq.exc!r}; {label}")
        rec.evaluated(nontrivial=nontrivial)
    finally:
        import glob

        for f_ in [path] + ([sibling] if sibling else []) + glob.glob(str(scratch / f"c08_{os.getpid()}_*")):
            try:
                os.remove(f_)
            except OSError:
                pass


def sentinels(rec):
    # D12: track mixing two same-layout classes read back as another class
    c = {"type": "DropletTrack", "times": [0, 1], "kind": "sentinel",
         "members": [{"cls": "PerturbedDroplet3D", "pos": [0.0, 0.0, 1.0], "radius": 1.0, "width": 0.5, "amps": [0.1, 0.2]},
                     {"cls": "PerturbedDroplet3DAxisSym", "pos": [0.0, 0.0, 1.5], "radius": 1.2, "width": 0.5, "amps": [0.1, 0.2]}]}
    with rec.case("sentinel", c):
        run(c, rec)


def run_shard(spec, rec):
    if spec["kind"] == "suite":
        common.run_suite(ID, rec)
        return
    from droplets import droplet_tracks, emulsions

    rec.watch(emulsions.Emulsion._write_hdf_dataset, emulsions.Emulsion._from_hdf_dataset,
              emulsions.EmulsionTimeCourse.to_file, emulsions.EmulsionTimeCourse.from_file,
              droplet_tracks.DropletTrack._from_hdf_dataset, droplet_tracks.DropletTrack._write_hdf_dataset,
              droplet_tracks.DropletTrackList.to_file, droplet_tracks.DropletTrackList.from_file)
    if spec["kind"] == "hostile" and spec["start"] == 0:
        sentinels(rec)
    common.run_generated(spec, rec, gen, run, ID)


def replay(v, rec):
    with rec.case(v["kind"], v["case"]):
        run(v["case"], rec)
