"""Connected components of a binary image on a (partly) periodic grid.

Breadth-first flood fill over face neighbours on the *universal cover*: every visited cell
carries the integer vector of boundary crossings (its sheet).  A cell reached on two
different sheets marks the component as winding.  Written from the specification, it
shares nothing with ``scipy.ndimage.label`` or the merge loop in the repository.
"""

from __future__ import annotations

from collections import deque

import numpy as np


def components(mask: np.ndarray, periodic) -> list[dict]:
    """Return components as dicts: cells (n,d) int, sheets (n,d) int, winding bool."""
    mask = np.asarray(mask, bool)
    shape = mask.shape
    d = mask.ndim
    seen: dict[tuple, tuple] = {}
    comps = []
    for start in map(tuple, np.argwhere(mask)):
        if start in seen:
            continue
        zero = (0,) * d
        seen[start] = zero
        cells, sheets = [start], [zero]
        winding = False
        queue = deque([start])
        while queue:
            c = queue.popleft()
            sh = seen[c]
            for a in range(d):
                for step in (-1, 1):
                    i = c[a] + step
                    s = sh[a]
                    if i < 0:
                        if not periodic[a]:
                            continue
                        i += shape[a]
                        s -= 1
                    elif i >= shape[a]:
                        if not periodic[a]:
                            continue
                        i -= shape[a]
                        s += 1
                    n = c[:a] + (i,) + c[a + 1:]
                    if not mask[n]:
                        continue
                    nsh = sh[:a] + (s,) + sh[a + 1:]
                    old = seen.get(n)
                    if old is None:
                        seen[n] = nsh
                        cells.append(n)
                        sheets.append(nsh)
                        queue.append(n)
                    elif old != nsh:
                        winding = True
        comps.append({
            "cells": np.array(cells, dtype=int).reshape(-1, d),
            "sheets": np.array(sheets, dtype=int).reshape(-1, d),
            "winding": winding,
        })
    return comps


def unwrapped_cell_coords(comp, shape) -> np.ndarray:
    """Cell-coordinate centres (index + sheet*shape + 1/2) of the unwrapped component."""
    return comp["cells"] + comp["sheets"] * np.asarray(shape) + 0.5


def brute_force_labels(mask: np.ndarray, periodic) -> np.ndarray:
    """Independent check of `components`: iterate label propagation to a fixed point."""
    mask = np.asarray(mask, bool)
    lab = np.where(mask, np.arange(1, mask.size + 1).reshape(mask.shape), 0)
    while True:
        new = lab.copy()
        for a in range(mask.ndim):
            for step in (-1, 1):
                sh = np.roll(lab, step, axis=a)
                if not periodic[a]:
                    idx = [slice(None)] * mask.ndim
                    idx[a] = 0 if step == 1 else -1
                    sh[tuple(idx)] = 0
                upd = mask & (sh > 0)
                new = np.where(upd, np.maximum(new, sh), new)
        if np.array_equal(new, lab):
            return lab
        lab = new
