"""Exact curvature / volume / surface oracles for the perturbed droplet shapes.

2-D: closed-form curvature of the polar curve r(phi) from r, r', r'' of the oracle's own
series; area and perimeter by the periodic trapezoid rule (spectrally accurate).
3-D: mean curvature of the level set F(x) = |x| - R0 * rel(direction(x)) = 0,
    H = (|grad F|^2 lap F - grad F . Hess F . grad F) / (2 |grad F|^3),
with gradient and Hessian from central differences in Cartesian coordinates (no pole
singularity); volume by Gauss-Legendre x trapezoid quadrature of r^3/3.
"""

from __future__ import annotations

import numpy as np

from . import harmonics


# ---------------------------------------------------------------- 2-D


def series_2d(amps, phi):
    """r/R0, (r/R0)', (r/R0)'' of the 2-D series."""
    phi = np.asarray(phi, float)
    r = np.ones_like(phi)
    r1 = np.zeros_like(phi)
    r2 = np.zeros_like(phi)
    for i, a in enumerate(amps):
        n = i // 2 + 1
        if i % 2 == 0:
            r += a * np.sin(n * phi)
            r1 += a * n * np.cos(n * phi)
            r2 -= a * n * n * np.sin(n * phi)
        else:
            r += a * np.cos(n * phi)
            r1 -= a * n * np.sin(n * phi)
            r2 -= a * n * n * np.cos(n * phi)
    return r, r1, r2


def curvature_2d(R0, amps, phi):
    r, r1, r2 = series_2d(amps, phi)
    return (r * r + 2 * r1 * r1 - r * r2) / (r * r + r1 * r1) ** 1.5 / R0


def area_perimeter_2d(R0, amps, n=4096):
    phi = np.linspace(0, 2 * np.pi, n, endpoint=False)
    r, r1, _ = series_2d(amps, phi)
    dphi = 2 * np.pi / n
    return 0.5 * R0 * R0 * float(np.sum(r * r)) * dphi, R0 * float(np.sum(np.hypot(r, r1))) * dphi


# ---------------------------------------------------------------- 3-D


def _rel(cls, amps, pts):
    return harmonics.rel_interface(cls, amps, pts)


def level(cls, R0, amps, pts):
    pts = np.asarray(pts, float)
    return np.linalg.norm(pts, axis=-1) - R0 * _rel(cls, amps, pts)


def mean_curvature_3d(cls, R0, amps, theta, phi, h_rel=3e-4):
    """Mean curvature (1/R for a sphere) of the surface at directions (theta, phi)."""
    theta = np.atleast_1d(np.asarray(theta, float))
    phi = np.atleast_1d(np.asarray(phi, float))
    u = np.stack([np.sin(theta) * np.cos(phi), np.sin(theta) * np.sin(phi), np.cos(theta)], axis=-1)
    x0 = u * (R0 * _rel(cls, amps, u))[..., None]
    h = h_rel * R0
    e = np.eye(3)
    F = lambda p: level(cls, R0, amps, p)  # noqa: E731
    g = np.empty(x0.shape)
    H = np.empty(x0.shape + (3,))
    f0 = F(x0)
    for i in range(3):
        fp, fm = F(x0 + h * e[i]), F(x0 - h * e[i])
        g[..., i] = (fp - fm) / (2 * h)
        H[..., i, i] = (fp - 2 * f0 + fm) / (h * h)
        for j in range(i + 1, 3):
            fpp = F(x0 + h * e[i] + h * e[j])
            fpm = F(x0 + h * e[i] - h * e[j])
            fmp = F(x0 - h * e[i] + h * e[j])
            fmm = F(x0 - h * e[i] - h * e[j])
            H[..., i, j] = H[..., j, i] = (fpp - fpm - fmp + fmm) / (4 * h * h)
    g2 = np.sum(g * g, axis=-1)
    lap = np.trace(H, axis1=-2, axis2=-1)
    gHg = np.einsum("...i,...ij,...j->...", g, H, g)
    return (g2 * lap - gHg) / (2 * g2 ** 1.5)


def volume_3d(cls, R0, amps, n_theta=96, n_phi=192):
    x, w = np.polynomial.legendre.leggauss(n_theta)
    theta = np.arccos(x)
    phi = np.linspace(0, 2 * np.pi, n_phi, endpoint=False)
    T, P = np.meshgrid(theta, phi, indexing="ij")
    if cls == "PerturbedDroplet3D":
        rel = harmonics.rel_interface_3d(amps, T, P)
    else:
        rel = harmonics.rel_interface_axisym(amps, T)
    integrand = (R0 * rel) ** 3 / 3
    return float(np.sum(w[:, None] * integrand) * (2 * np.pi / n_phi))


def surface_3d(cls, R0, amps, n_theta=128, n_phi=256, step=1e-5):
    """Area of the surface r(theta, phi) = R0 rel(theta, phi):
    dA = r sqrt((r^2 + r_theta^2) sin^2(theta) + r_phi^2) dtheta dphi  (Gauss-Legendre in cos(theta), uniform in phi;
    derivatives by central differences of the oracle's own series)."""
    x, w = np.polynomial.legendre.leggauss(n_theta)
    theta = np.arccos(x)
    phi = np.linspace(0, 2 * np.pi, n_phi, endpoint=False)
    T, P = np.meshgrid(theta, phi, indexing="ij")

    def r(t, p):
        if cls == "PerturbedDroplet3D":
            return R0 * harmonics.rel_interface_3d(amps, t, p)
        return R0 * harmonics.rel_interface_axisym(amps, t)

    r0 = r(T, P)
    r_t = (r(T + step, P) - r(T - step, P)) / (2 * step)
    r_p = (r(T, P + step) - r(T, P - step)) / (2 * step)
    s = np.sin(T)
    dA = r0 * np.sqrt((r0 ** 2 + r_t ** 2) * s ** 2 + r_p ** 2)
    # d(theta) = d(cos theta) / sin(theta)
    return float(np.sum(w[:, None] * dA / s) * (2 * np.pi / n_phi))
