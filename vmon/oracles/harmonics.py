"""Shape oracle: interface-distance series of the three perturbed droplet classes.

Real spherical harmonics are computed from an explicit recursion of the associated
Legendre functions (no Condon-Shortley phase), independent of ``scipy.special`` and of
``droplets.tools.spherical``:

    k = l (l + 1) + m          (mode index used by the package; amplitudes[i] <-> k = i + 1)
    Y_k =  sqrt(2) N_l|m| P_l^|m|(cos t) cos(|m| p)      m > 0
           N_l0 P_l(cos t)                               m = 0
           sqrt(2) N_l|m| P_l^|m|(cos t) sin(|m| p)      m < 0
    N_lm = sqrt((2l+1)/(4 pi) (l-m)!/(l+m)!)
"""

from __future__ import annotations

import math

import numpy as np


def lm_from_k(k: int) -> tuple[int, int]:
    l = math.isqrt(k)
    return l, k - l * (l + 1)


def legendre_plm(l: int, m: int, x: np.ndarray) -> np.ndarray:
    """Associated Legendre function P_l^m(x), m >= 0, without Condon-Shortley phase."""
    x = np.asarray(x, float)
    s = np.sqrt(np.clip(1.0 - x * x, 0.0, None))
    pmm = np.ones_like(x)
    for i in range(1, m + 1):  # P_m^m = (2m-1)!! (1-x^2)^(m/2)
        pmm = pmm * (2 * i - 1) * s
    if l == m:
        return pmm
    pm1 = x * (2 * m + 1) * pmm  # P_{m+1}^m
    if l == m + 1:
        return pm1
    for ll in range(m + 2, l + 1):
        pll = ((2 * ll - 1) * x * pm1 - (ll + m - 1) * pmm) / (ll - m)
        pmm, pm1 = pm1, pll
    return pm1


def real_harmonic(l: int, m: int, theta, phi) -> np.ndarray:
    theta = np.asarray(theta, float)
    phi = np.asarray(phi, float)
    am = abs(m)
    norm = math.sqrt((2 * l + 1) / (4 * math.pi) * math.factorial(l - am) / math.factorial(l + am))
    p = legendre_plm(l, am, np.cos(theta))
    if m > 0:
        return math.sqrt(2) * norm * p * np.cos(am * phi)
    if m < 0:
        return math.sqrt(2) * norm * p * np.sin(am * phi)
    return norm * p + 0.0 * phi


def real_harmonic_k(k: int, theta, phi) -> np.ndarray:
    l, m = lm_from_k(k)
    return real_harmonic(l, m, theta, phi)


def max_abs_harmonic(l: int) -> float:
    """Upper bound of |Y_lm| over the sphere for any m."""
    return math.sqrt(2) * math.sqrt((2 * l + 1) / (4 * math.pi))


# ---------------------------------------------------------------- interface distance


def rel_interface_2d(amplitudes, phi) -> np.ndarray:
    phi = np.asarray(phi, float)
    out = np.ones_like(phi)
    for i, a in enumerate(amplitudes):
        n = i // 2 + 1
        out = out + a * (np.sin(n * phi) if i % 2 == 0 else np.cos(n * phi))
    return out


def rel_interface_3d(amplitudes, theta, phi) -> np.ndarray:
    theta = np.asarray(theta, float)
    out = np.ones_like(theta)
    for i, a in enumerate(amplitudes):
        if a != 0:
            out = out + a * real_harmonic_k(i + 1, theta, phi)
    return out


def rel_interface_axisym(amplitudes, theta) -> np.ndarray:
    theta = np.asarray(theta, float)
    out = np.ones_like(theta)
    for i, a in enumerate(amplitudes):
        if a != 0:
            out = out + a * real_harmonic(i + 1, 0, theta, 0.0)
    return out


def rel_interface(cls: str, amplitudes, diff: np.ndarray) -> np.ndarray:
    """Relative interface distance (R(dir)/R0) in the direction of each difference vector.

    At zero distance the direction is undefined; any finite value is returned there (the
    caller treats such cells separately).
    """
    d = np.linalg.norm(diff, axis=-1)
    if cls == "PerturbedDroplet2D":
        phi = np.arctan2(diff[..., 1], diff[..., 0])
        return rel_interface_2d(amplitudes, phi)
    safe = np.where(d > 0, d, 1.0)
    theta = np.arccos(np.clip(np.where(d > 0, diff[..., 2] / safe, 1.0), -1.0, 1.0))
    phi = np.arctan2(diff[..., 1], diff[..., 0])
    if cls == "PerturbedDroplet3D":
        return rel_interface_3d(amplitudes, theta, phi)
    if cls == "PerturbedDroplet3DAxisSym":
        return rel_interface_axisym(amplitudes, theta)
    raise ValueError(cls)


def amplitude_bound(cls: str, amplitudes) -> float:
    """Upper bound of sum_k |a_k| max|Y_k| (so 1 - bound > 0 means a star-shaped body)."""
    tot = 0.0
    for i, a in enumerate(amplitudes):
        if cls == "PerturbedDroplet2D":
            tot += abs(a)
        elif cls == "PerturbedDroplet3D":
            tot += abs(a) * max_abs_harmonic(lm_from_k(i + 1)[0])
        else:
            tot += abs(a) * math.sqrt((2 * (i + 1) + 1) / (4 * math.pi))
    return tot


def min_rel_interface(cls: str, amplitudes, n: int = 720) -> float:
    """Smallest relative interface distance over a dense set of directions (> 0 means that the
    body is star-shaped about its centre, i.e. the droplet is a valid shape and its centre lies
    inside).  Sampling error is bounded by the caller keeping a margin (e.g. demanding >= 0.1)."""
    a = np.asarray(amplitudes if amplitudes is not None else [], float)
    if a.size == 0 or not np.any(a):
        return 1.0
    if cls == "PerturbedDroplet2D":
        phi = np.linspace(0, 2 * math.pi, n, endpoint=False)
        return float(np.min(rel_interface_2d(a, phi)))
    theta = np.linspace(0, math.pi, 91)
    if cls == "PerturbedDroplet3DAxisSym":
        return float(np.min(rel_interface_axisym(a, theta)))
    phi = np.linspace(0, 2 * math.pi, 180, endpoint=False)
    T, P = np.meshgrid(theta, phi, indexing="ij")
    return float(np.min(rel_interface_3d(a, T.ravel(), P.ravel())))
