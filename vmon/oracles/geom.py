"""Geometry oracle: grids from JSON specs, cell centres/volumes, own periodic metric.

Trusted from py-pde: grid construction, ``axes_coords``, ``axes_bounds``,
``discretization`` and ``transform(.., 'grid', 'cartesian')``.  NOT trusted: the periodic
metric (``difference_vector``/``distance``), which is recomputed here as the minimum image
over the periodic axes.
"""

from __future__ import annotations

import itertools
import math

import numpy as np

FAMILIES = ("cart", "polar", "sph", "cyl")


def make_grid(spec: dict):
    import pde

    fam = spec["family"]
    if fam == "cart":
        return pde.CartesianGrid(spec["bounds"], spec["shape"], periodic=spec["periodic"])
    if fam == "polar":
        return pde.PolarSymGrid(tuple(spec["radius"]) if isinstance(spec["radius"], list) else spec["radius"], spec["shape"][0])
    if fam == "sph":
        return pde.SphericalSymGrid(tuple(spec["radius"]) if isinstance(spec["radius"], list) else spec["radius"], spec["shape"][0])
    if fam == "cyl":
        return pde.CylindricalSymGrid(
            spec["radius"], tuple(spec["bounds_z"]), tuple(spec["shape"]),
            periodic_z=bool(spec["periodic_z"]))
    raise ValueError(fam)


def grid_label(spec: dict) -> str:
    fam = spec["family"]
    if fam == "cart":
        per = "".join("P" if p else "n" for p in spec["periodic"])
        return f"cart{len(spec['shape'])}d-{per}"
    if fam == "cyl":
        return "cyl-" + ("P" if spec["periodic_z"] else "n")
    return fam


def spacing(spec: dict) -> np.ndarray:
    fam = spec["family"]
    if fam == "cart":
        b = np.asarray(spec["bounds"], float)
        return (b[:, 1] - b[:, 0]) / np.asarray(spec["shape"], float)
    if fam in ("polar", "sph"):
        r_in, r_out = radial_range(spec)
        return np.array([(r_out - r_in) / spec["shape"][0]])
    if fam == "cyl":
        bz = spec["bounds_z"]
        return np.array([spec["radius"] / spec["shape"][0], (bz[1] - bz[0]) / spec["shape"][1]])
    raise ValueError(fam)


def radial_range(spec: dict):
    """(inner, outer) radius of a polar/spherical grid spec; ``radius`` may be a number or a pair."""
    r = spec["radius"]
    if isinstance(r, (list, tuple)):
        return float(r[0]), float(r[1])
    return 0.0, float(r)


def space_dim(spec: dict) -> int:
    return {"cart": len(spec["shape"]), "polar": 2, "sph": 3, "cyl": 3}[spec["family"]]


def cart_periodicity(spec: dict):
    """Periods (or None) per Cartesian axis of the embedding space."""
    fam = spec["family"]
    if fam == "cart":
        b = np.asarray(spec["bounds"], float)
        return [float(b[i, 1] - b[i, 0]) if spec["periodic"][i] else None
                for i in range(len(spec["shape"]))]
    if fam == "polar":
        return [None, None]
    if fam == "sph":
        return [None, None, None]
    if fam == "cyl":
        bz = spec["bounds_z"]
        return [None, None, float(bz[1] - bz[0]) if spec["periodic_z"] else None]
    raise ValueError(fam)


def cell_centers_cart(grid) -> np.ndarray:
    """Cartesian coordinates of all cell centres, shape grid.shape + (dim,)."""
    axes = np.meshgrid(*grid.axes_coords, indexing="ij")
    pts = np.stack(axes, axis=-1)
    return np.asarray(grid.transform(pts, "grid", "cartesian"), float)


def cell_volumes(grid, spec: dict) -> np.ndarray:
    """Closed-form volume of every cell, shape grid.shape."""
    fam = spec["family"]
    h = spacing(spec)
    shape = tuple(spec["shape"])
    if fam == "cart":
        return np.full(shape, float(np.prod(h)))
    edges = np.arange(shape[0] + 1) * h[0]
    if fam in ("polar", "sph"):
        edges = edges + radial_range(spec)[0]
    if fam == "polar":
        return math.pi * (edges[1:] ** 2 - edges[:-1] ** 2)
    if fam == "sph":
        return 4 * math.pi / 3 * (edges[1:] ** 3 - edges[:-1] ** 3)
    if fam == "cyl":
        ring = math.pi * (edges[1:] ** 2 - edges[:-1] ** 2)
        return np.outer(ring, np.full(shape[1], h[1]))
    raise ValueError(fam)


def min_image(diff: np.ndarray, periods) -> np.ndarray:
    """Minimum-image representative of difference vectors (last axis = components)."""
    diff = np.array(diff, dtype=float, copy=True)
    for a, L in enumerate(periods):
        if L is not None:
            diff[..., a] -= L * np.round(diff[..., a] / L)
    return diff


def distance(p, q, periods) -> float:
    return float(np.linalg.norm(min_image(np.asarray(q, float) - np.asarray(p, float), periods)))


def cell_distances(grid, spec: dict, center) -> tuple[np.ndarray, np.ndarray]:
    """Min-image difference vectors and distances of all cell centres from `center`."""
    pts = cell_centers_cart(grid)
    diff = min_image(pts - np.asarray(center, float), cart_periodicity(spec))
    return diff, np.linalg.norm(diff, axis=-1)


def knife_edge(dist: np.ndarray, radius, rel_tol: float, scale: float) -> bool:
    """True if any cell centre is within rel_tol*scale of the interface."""
    return bool(np.any(np.abs(dist - radius) <= rel_tol * scale))


# --------------------------------------------------------------------------- generators


UNIT_P = 0.0  # probability of a non-unit length scale; set per property by props.common.run_generated
UNIT_SEEN: dict = {}


def unit_scale(rng) -> float:
    """Length unit of a generated case: 1 for most, otherwise a power of ten in 1e-9..1e9 (the statements speak
    about grids and droplets, not about the unit their lengths are measured in)."""
    import os
    p = float(os.environ.get("VERIF_UNITSCALE_P", UNIT_P))
    if p <= 0 or rng.random() >= p:
        return 1.0
    u = float(10.0 ** int(rng.choice([-9, -6, -3, -2, -1, 0, 1, 2, 3, 6, 9])))
    UNIT_SEEN[f"{u:g}"] = UNIT_SEEN.get(f"{u:g}", 0) + 1
    return u


def rand_cart_spec(rng, dim, *, nmin=4, nmax=12, hmin=0.3, hmax=2.5, periodic=None,
                   aniso=True, origin_span=5.0):
    shape = [int(rng.integers(nmin, nmax + 1)) for _ in range(dim)]
    if aniso:
        h = rng.uniform(hmin, hmax, dim)
    else:
        h = np.full(dim, rng.uniform(hmin, hmax))
    u = unit_scale(rng)
    h, origin_span = h * u, origin_span * u
    lo = rng.uniform(-origin_span, origin_span, dim)
    # round to a few decimals so specs stay readable; exact values are whatever results
    h = np.round(h / u, 4) * u
    lo = np.round(lo / u, 3) * u
    if periodic is None:
        periodic = [bool(rng.integers(0, 2)) for _ in range(dim)]
    bounds = [[float(lo[i]), float(lo[i] + h[i] * shape[i])] for i in range(dim)]
    return {"family": "cart", "bounds": bounds, "shape": shape,
            "periodic": [bool(p) for p in periodic], "unit": u}


def rand_sym_spec(rng, family, *, nmin=6, nmax=30, hmin=0.3, hmax=2.5):
    n = int(rng.integers(nmin, nmax + 1))
    u = unit_scale(rng)
    h = float(np.round(rng.uniform(hmin, hmax), 4)) * u
    return {"family": family, "radius": h * n, "shape": [n], "unit": u}


def rand_cyl_spec(rng, *, nmin=6, nmax=24, hmin=0.3, hmax=2.0, periodic_z=None,
                  ratio=(0.5, 2.0)):
    nr = int(rng.integers(nmin, nmax + 1))
    nz = int(rng.integers(nmin, nmax + 1))
    u = unit_scale(rng)
    hr = float(np.round(rng.uniform(hmin, hmax), 4)) * u
    hz = float(np.round(hr / u * rng.uniform(*ratio), 4)) * u
    z0 = float(np.round(rng.uniform(-5, 5), 3)) * u
    if periodic_z is None:
        periodic_z = bool(rng.integers(0, 2))
    return {"family": "cyl", "radius": hr * nr, "bounds_z": [z0, z0 + hz * nz],
            "shape": [nr, nz], "periodic_z": bool(periodic_z), "unit": u}


def all_periodic_masks(dim):
    return [list(m) for m in itertools.product([False, True], repeat=dim)]
