"""Core runtime of the monitors: environment pinning, recorder, digests, line probes.

Everything a property module needs lives here:

* :func:`bootstrap` pins the interpreter to the repository tree under test
  (``$VERIF_REPO``, default ``/repo``), silences logging and returns the imported package.
* :class:`Recorder` collects what the monitors observed in one shard: evaluations,
  distinct non-trivial case digests, histograms, monitor hit counts, samples, executed
  lines of the anchor functions, violations (with replayable case), sentinel outcomes.
"""

from __future__ import annotations

import hashlib
import json
import logging
import os
import sys
import time
import traceback
from contextlib import contextmanager
from pathlib import Path

import numpy as np

ROOT = Path(os.environ.get("VERIF_ROOT", Path(__file__).resolve().parent.parent))
REPO = Path(os.environ.get("VERIF_REPO", "/repo")).resolve()
DEPS = ROOT / ".deps"

_booted = None


def bootstrap():
    """Import the package under test from $VERIF_REPO and pin the environment."""
    global _booted
    if _booted is not None:
        return _booted
    for p in (str(DEPS), str(REPO)):
        if p in sys.path:
            sys.path.remove(p)
        sys.path.insert(0, p)
    os.environ.setdefault("MPLBACKEND", "Agg")
    logging.disable(logging.CRITICAL)
    import warnings

    warnings.filterwarnings("ignore")
    from . import monitors

    monitors.install_least_squares_dispatcher()  # must precede the import of the package
    import droplets  # noqa: E402

    where = Path(droplets.__file__).resolve()
    if REPO not in where.parents:
        raise RuntimeError(f"droplets imported from {where}, expected under {REPO}")
    np.seterr(all="ignore")
    _booted = droplets
    return droplets


def repo_state() -> dict:
    import subprocess

    def git(*a):
        try:
            return subprocess.run(
                ["git", "-C", str(REPO), *a], capture_output=True, text=True, timeout=20
            ).stdout.strip()
        except Exception:  # pragma: no cover
            return "?"

    return {
        "path": str(REPO),
        "head": git("rev-parse", "HEAD"),
        "dirty": bool(git("status", "--porcelain", "--untracked-files=no")),
    }


# --------------------------------------------------------------------------- digests


def _canon(obj):
    if isinstance(obj, np.ndarray):
        return ["nd", str(obj.dtype), list(obj.shape), obj.tobytes().hex()]
    if isinstance(obj, (np.floating, float)):
        return float(obj).hex()
    if isinstance(obj, (np.integer,)):
        return int(obj)
    if isinstance(obj, (np.bool_,)):
        return bool(obj)
    if isinstance(obj, dict):
        return {str(k): _canon(v) for k, v in sorted(obj.items(), key=lambda kv: str(kv[0]))}
    if isinstance(obj, (list, tuple)):
        return [_canon(v) for v in obj]
    if isinstance(obj, bytes):
        return obj.hex()
    return obj


def digest(obj) -> int:
    """64-bit digest of a JSON-like object (floats by bit pattern)."""
    s = json.dumps(_canon(obj), sort_keys=True, separators=(",", ":"), default=str)
    return int.from_bytes(hashlib.blake2b(s.encode(), digest_size=8).digest(), "big")


def jsonable(obj):
    """Convert numpy containers into plain JSON values (lossless for float64)."""
    if isinstance(obj, np.ndarray):
        return jsonable(obj.tolist())
    if isinstance(obj, (np.floating,)):
        return float(obj)
    if isinstance(obj, float):
        if obj != obj:
            return "NaN"
        if obj in (float("inf"), float("-inf")):
            return "Infinity" if obj > 0 else "-Infinity"
        return obj
    if isinstance(obj, (np.integer,)):
        return int(obj)
    if isinstance(obj, (np.bool_,)):
        return bool(obj)
    if isinstance(obj, dict):
        return {str(k): jsonable(v) for k, v in obj.items()}
    if isinstance(obj, (list, tuple)):
        return [jsonable(v) for v in obj]
    if isinstance(obj, bytes):
        return obj.hex()
    if isinstance(obj, (str, int, bool)) or obj is None:
        return obj
    return repr(obj)


def unjson_float(x):
    if x == "NaN":
        return float("nan")
    if x == "Infinity":
        return float("inf")
    if x == "-Infinity":
        return float("-inf")
    return x


def decode_specials(obj):
    """Inverse of the NaN/Infinity string encoding used by :func:`jsonable`."""
    if isinstance(obj, dict):
        return {k: decode_specials(v) for k, v in obj.items()}
    if isinstance(obj, list):
        return [decode_specials(v) for v in obj]
    if isinstance(obj, str):
        return unjson_float(obj)
    return obj


def farr(x):
    """JSON value (possibly with 'NaN'/'Infinity' strings) -> float array."""

    def conv(v):
        if isinstance(v, list):
            return [conv(u) for u in v]
        return unjson_float(v)

    return np.asarray(conv(x), dtype=float)


# --------------------------------------------------------------------------- recorder


class HarnessError(Exception):
    """Raised for faults of the machinery itself (never a verdict about the repo)."""


class Recorder:
    MAX_VIOLATIONS = 12
    MAX_SAMPLES = 6

    def __init__(self, prop: str, shard: str = "", seed: int = 0, tier: str = "quick"):
        self.prop = prop
        self.shard = shard
        self.seed = seed
        self.tier = tier
        self.evaluations = 0
        self.nontrivial: set[int] = set()
        self.trivial_distinct: set[int] = set()
        self.counters: dict[str, int] = {}
        self.monitors: dict[str, int] = {}
        self.samples: dict[str, list] = {}
        self.violations: list[dict] = []
        self.violation_keys: set = set()
        self.suppressed_violations = 0
        self.sentinels: dict[str, dict] = {}
        self.lines: dict[str, set[int]] = {}
        self.harness_errors: list[str] = []
        self.notes: dict = {}
        self.exhaustive_spaces: dict[str, dict] = {}
        self._case = None
        self._kind = None
        self._sentinel = None
        self._t0 = time.monotonic()
        self._probe_codes: dict = {}

    # -- cases ------------------------------------------------------------------
    @contextmanager
    def case(self, kind: str, case: dict):
        """Context of one generated case; violations raised inside refer to it."""
        prev = (self._case, self._kind)
        self._case, self._kind = case, kind
        try:
            yield
        finally:
            self._case, self._kind = prev

    def evaluated(self, *, nontrivial: bool, key=None, sample=None, kind=None):
        """Register one evaluated case.

        `key` identifies the case (defaults to the current case dict); `nontrivial` is the
        property's stated rule evaluated on this case.
        """
        self.evaluations += 1
        k = digest(key if key is not None else self._case)
        (self.nontrivial if nontrivial else self.trivial_distinct).add(k)
        kind = kind or self._kind or "case"
        if sample is None:
            sample = self._case
        lst = self.samples.setdefault(kind, [])
        if len(lst) < self.MAX_SAMPLES and (nontrivial or len(lst) < 2) and sample is not None:
            lst.append(jsonable(sample))

    def count(self, name: str, n: int = 1):
        self.counters[name] = self.counters.get(name, 0) + n

    def hit(self, monitor: str, n: int = 1):
        self.monitors[monitor] = self.monitors.get(monitor, 0) + n

    def note(self, key, value):
        self.notes[key] = jsonable(value)

    def note_count(self, key, item: str, n: int = 1):
        """Histogram-valued observation (merged across shards by summing)."""
        d = self.notes.setdefault(key, {})
        d[item] = d.get(item, 0) + n

    def note_max(self, key, value):
        value = float(value)
        if value == value and (key not in self.notes or value > self.notes[key]):
            self.notes[key] = value

    def space(self, name: str, size: int, enumerated: int):
        """Declare a finite space and how much of it this shard enumerated."""
        s = self.exhaustive_spaces.setdefault(name, {"size": size, "enumerated": 0})
        s["enumerated"] += enumerated

    # -- violations -------------------------------------------------------------
    def violation(self, clause: str, message: str, *, extra=None, case=None, kind=None):
        """A refuting observation for the property (clause names the part refuted)."""
        case = case if case is not None else self._case
        kind = kind or self._kind
        finding = self._sentinel
        dkey = (clause, finding, kind)
        self.count(f"violation:{clause}")
        if finding is not None:
            self.sentinels[finding]["violations"] += 1
        n_same = sum(1 for v in self.violations if v["dkey"] == list(dkey))
        if n_same >= 3 or len(self.violations) >= self.MAX_VIOLATIONS:
            self.suppressed_violations += 1
            return
        self.violations.append(
            {
                "dkey": list(dkey),
                "clause": clause,
                "finding_key": finding,
                "kind": kind,
                "message": message,
                "extra": jsonable(extra) if extra is not None else None,
                "case": jsonable(case),
                "shard": self.shard,
            }
        )

    def check(self, cond, clause: str, message: str = "", **kw) -> bool:
        """Evaluate a post-condition: counts the evaluation, records a violation if false."""
        self.hit(f"post:{clause}")
        if not cond:
            self.violation(clause, message or clause, **kw)
            return False
        return True

    @contextmanager
    def sentinel(self, key: str, what: str):
        """Run a deterministic sentinel case for known-finding mechanism `key`."""
        self.sentinels.setdefault(key, {"what": what, "runs": 0, "violations": 0})
        self.sentinels[key]["runs"] += 1
        prev = self._sentinel
        self._sentinel = key
        try:
            yield
        finally:
            self._sentinel = prev

    def harness_error(self, where: str, exc: BaseException | None = None):
        msg = where
        if exc is not None:
            msg += ": " + "".join(traceback.format_exception(exc))[-1500:]
        if len(self.harness_errors) < 5:
            self.harness_errors.append(msg)
        self.count("harness_errors")

    # -- line probes -------------------------------------------------------------
    def watch(self, *funcs):
        """Record which lines of the given (anchor) functions are executed."""
        mon = sys.monitoring
        tool = mon.COVERAGE_ID
        if mon.get_tool(tool) is None:
            mon.use_tool_id(tool, "vmon-lines")

            def on_line(code, line):
                name = self._probe_codes.get(code)
                if name is not None:
                    self.lines.setdefault(name, set()).add(line)
                return mon.DISABLE

            mon.register_callback(tool, mon.events.LINE, on_line)
        for f in funcs:
            f = getattr(f, "__wrapped__", f)
            f = getattr(f, "__func__", f)
            code = getattr(f, "__code__", None)
            if code is None:
                continue
            name = f"{Path(code.co_filename).name}:{f.__qualname__}"
            self._register_code(code, name, tool)

    def _register_code(self, code, name, tool):
        mon = sys.monitoring
        self._probe_codes[code] = name
        self.lines.setdefault(name, set())
        mon.set_local_events(tool, code, mon.events.LINE)
        for const in code.co_consts:  # nested functions / comprehensions
            if hasattr(const, "co_code"):
                self._register_code(const, name, tool)

    def absorb(self, out: dict, nontrivial=(), trivial=()):
        """Merge the dump of another recorder (e.g. one that ran inside a pytest session)."""
        self.evaluations += out["evaluations"]
        for k, v in out["counters"].items():
            self.counters[k] = self.counters.get(k, 0) + v
        for k, v in out["monitors"].items():
            self.monitors[k] = self.monitors.get(k, 0) + v
        for k, v in out["samples"].items():
            self.samples.setdefault(k, []).extend(v[: self.MAX_SAMPLES])
        for v in out["violations"]:
            if len(self.violations) < self.MAX_VIOLATIONS:
                self.violations.append(v)
            else:
                self.suppressed_violations += 1
        self.suppressed_violations += out["suppressed_violations"]
        for k, v in out["lines"].items():
            self.lines.setdefault(k, set()).update(v)
        self.harness_errors.extend(out["harness_errors"][:5])
        self.nontrivial.update(int(x) for x in nontrivial)
        self.trivial_distinct.update(int(x) for x in trivial)

    def elapsed(self) -> float:
        return time.monotonic() - self._t0

    # -- serialisation -------------------------------------------------------------
    def dump(self, path: Path):
        nt = np.fromiter(self.nontrivial, dtype=np.uint64, count=len(self.nontrivial))
        tr = np.fromiter(
            self.trivial_distinct, dtype=np.uint64, count=len(self.trivial_distinct)
        )
        np.savez(str(path) + ".npz", nontrivial=nt, trivial=tr)
        out = {
            "prop": self.prop,
            "shard": self.shard,
            "evaluations": self.evaluations,
            "counters": self.counters,
            "monitors": self.monitors,
            "samples": self.samples,
            "violations": self.violations,
            "suppressed_violations": self.suppressed_violations,
            "sentinels": self.sentinels,
            "lines": {k: sorted(v) for k, v in self.lines.items()},
            "harness_errors": self.harness_errors,
            "notes": self.notes,
            "spaces": self.exhaustive_spaces,
            "wall_s": self.elapsed(),
        }
        Path(path).write_text(json.dumps(out))


def guarded(rec: Recorder, fn, *args, **kwargs):
    """Run harness code; an exception here is a harness error, not a verdict."""
    try:
        return fn(*args, **kwargs)
    except HarnessError as e:
        rec.harness_error(getattr(fn, "__name__", "fn"), e)
    except Exception as e:  # noqa: BLE001
        rec.harness_error(getattr(fn, "__name__", "fn"), e)
    return None


def sub_rng(seed: int, *tags) -> np.random.Generator:
    """Deterministic generator from the run seed and arbitrary tags."""
    h = hashlib.blake2b(json.dumps([seed, *map(str, tags)]).encode(), digest_size=16)
    return np.random.default_rng(int.from_bytes(h.digest(), "big"))
