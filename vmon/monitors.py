"""Monitors attached to the imported package by rebinding module attributes (no source hooks).

* :class:`OptimizeProxy` observes every ``scipy.optimize.least_squares`` call made while it is
  active (through a dispatcher bound onto ``scipy.optimize`` before the package is imported):
  x0, bounds, the cost at the start (evaluated *before* the solver runs), ``result.cost``, x*,
  status, nfev.
* :func:`wrap_attr` rebinds a module attribute (and listed aliases) to a recording wrapper
  and counts evaluations, so that a bypassed wrapper shows up as zero evaluations.
"""

from __future__ import annotations

import functools
from contextlib import contextmanager

import numpy as np


class OptimizeProxy:
    """Observer of ``least_squares`` calls made while it is active (see optimize_proxy)."""

    def __init__(self):
        self.calls: list[dict] = []

    def observe(self, real, fun, x0, *args, **kwargs):
        x0 = np.array(x0, dtype=float, copy=True)
        rec = {"x0": x0.copy(), "bounds": None, "kwargs": {k: v for k, v in kwargs.items() if k != "bounds"}}
        if "bounds" in kwargs:
            lo, hi = kwargs["bounds"]
            rec["bounds"] = (np.array(lo, float, copy=True), np.array(hi, float, copy=True))
        try:
            f0 = np.asarray(fun(x0.copy()), float)
            rec["m"] = int(f0.size)
            rec["cost0"] = 0.5 * float(np.dot(f0.ravel(), f0.ravel()))
        except Exception as e:  # noqa: BLE001 - the solver will hit the same problem
            rec["m"] = None
            rec["cost0"] = None
            rec["pre_exc"] = repr(e)
        self.calls.append(rec)
        try:
            res = real(fun, x0, *args, **kwargs)
        except Exception as e:
            rec["exc"] = repr(e)
            raise
        rec.update(cost=float(res.cost), x=np.array(res.x, float, copy=True), status=int(res.status),
                   nfev=int(res.nfev), active_mask=np.array(res.active_mask, copy=True),
                   optimality=float(res.optimality))
        return res


_active_proxies: list = []


def install_least_squares_dispatcher():
    """Rebind ``scipy.optimize.least_squares`` to a dispatcher *before* the package under test is
    imported, so that both ``optimize.least_squares(...)`` (attribute looked up at call time) and
    ``from scipy.optimize import least_squares`` (bound at import time) reach the observer.  The
    dispatcher is transparent unless an observer is active."""
    import scipy.optimize as so

    real = so.least_squares
    if getattr(real, "_vmon_dispatcher", False):
        return

    @functools.wraps(real)
    def least_squares(fun, x0, *args, **kwargs):
        if _active_proxies:
            return _active_proxies[-1].observe(real, fun, x0, *args, **kwargs)
        return real(fun, x0, *args, **kwargs)

    least_squares._vmon_dispatcher = True
    so.least_squares = least_squares


@contextmanager
def optimize_proxy():
    """Observe every least_squares call made by the package for the duration."""
    proxy = OptimizeProxy()
    _active_proxies.append(proxy)
    try:
        yield proxy
    finally:
        _active_proxies.remove(proxy)


@contextmanager
def wrap_attr(owner, name, make_wrapper, aliases=()):
    """Rebind ``owner.name`` (and aliases [(obj, attr), ...]) to ``make_wrapper(original)``."""
    orig = getattr(owner, name)
    wrapper = make_wrapper(orig)
    try:
        functools.update_wrapper(wrapper, orig)
    except Exception:  # noqa: BLE001
        pass
    saved = [(owner, name, orig)]
    setattr(owner, name, wrapper)
    for obj, attr in aliases:
        if getattr(obj, attr, None) is orig:
            saved.append((obj, attr, orig))
            setattr(obj, attr, wrapper)
    try:
        yield wrapper
    finally:
        for obj, attr, o in saved:
            setattr(obj, attr, o)


def recording(log: list, name: str):
    """make_wrapper for :func:`wrap_attr` appending (name, args, kwargs, result|exc) to log."""

    def make(orig):
        def wrapper(*args, **kwargs):
            entry = {"name": name, "args": args, "kwargs": kwargs}
            log.append(entry)
            try:
                entry["result"] = orig(*args, **kwargs)
            except Exception as e:
                entry["exc"] = e
                raise
            return entry["result"]

        return wrapper

    return make
