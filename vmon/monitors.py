"""Monitors attached to the imported package by rebinding module attributes (no source hooks).

* :class:`OptimizeProxy` stands in for ``scipy.optimize`` as seen from
  ``droplets.image_analysis`` and observes every ``least_squares`` call: x0, bounds, the
  cost at the start (evaluated *before* the solver runs), ``result.cost``, x*, status, nfev.
* :func:`wrap_attr` rebinds a module attribute (and listed aliases) to a recording wrapper
  and counts evaluations, so that a bypassed wrapper shows up as zero evaluations.
"""

from __future__ import annotations

import functools
from contextlib import contextmanager

import numpy as np


class OptimizeProxy:
    def __init__(self, real):
        self._real = real
        self.calls: list[dict] = []

    def __getattr__(self, name):
        return getattr(self._real, name)

    def least_squares(self, fun, x0, *args, **kwargs):
        x0 = np.array(x0, dtype=float, copy=True)
        rec = {"x0": x0.copy(), "bounds": None, "kwargs": {k: v for k, v in kwargs.items() if k != "bounds"}}
        if "bounds" in kwargs:
            lo, hi = kwargs["bounds"]
            rec["bounds"] = (np.array(lo, float, copy=True), np.array(hi, float, copy=True))
        try:
            f0 = np.asarray(fun(x0.copy()), float)
            rec["m"] = int(f0.size)
            rec["cost0"] = 0.5 * float(np.dot(f0.ravel(), f0.ravel()))
        except Exception as e:  # noqa: BLE001 - the solver will hit the same problem
            rec["m"] = None
            rec["cost0"] = None
            rec["pre_exc"] = repr(e)
        self.calls.append(rec)
        try:
            res = self._real.least_squares(fun, x0, *args, **kwargs)
        except Exception as e:
            rec["exc"] = repr(e)
            raise
        rec.update(cost=float(res.cost), x=np.array(res.x, float, copy=True), status=int(res.status),
                   nfev=int(res.nfev), active_mask=np.array(res.active_mask, copy=True),
                   optimality=float(res.optimality))
        return res


@contextmanager
def optimize_proxy():
    """Install the proxy on droplets.image_analysis.optimize for the duration."""
    from droplets import image_analysis as ia

    real = ia.optimize
    proxy = OptimizeProxy(real)
    ia.optimize = proxy
    try:
        yield proxy
    finally:
        ia.optimize = real


@contextmanager
def wrap_attr(owner, name, make_wrapper, aliases=()):
    """Rebind ``owner.name`` (and aliases [(obj, attr), ...]) to ``make_wrapper(original)``."""
    orig = getattr(owner, name)
    wrapper = make_wrapper(orig)
    try:
        functools.update_wrapper(wrapper, orig)
    except Exception:  # noqa: BLE001
        pass
    saved = [(owner, name, orig)]
    setattr(owner, name, wrapper)
    for obj, attr in aliases:
        if getattr(obj, attr, None) is orig:
            saved.append((obj, attr, orig))
            setattr(obj, attr, wrapper)
    try:
        yield wrapper
    finally:
        for obj, attr, o in saved:
            setattr(obj, attr, o)


def recording(log: list, name: str):
    """make_wrapper for :func:`wrap_attr` appending (name, args, kwargs, result|exc) to log."""

    def make(orig):
        def wrapper(*args, **kwargs):
            entry = {"name": name, "args": args, "kwargs": kwargs}
            log.append(entry)
            try:
                entry["result"] = orig(*args, **kwargs)
            except Exception as e:
                entry["exc"] = e
                raise
            return entry["result"]

        return wrapper

    return make
