"""Shard worker: python -m vmon.worker <ID> <spec.json> <out.json>."""

from __future__ import annotations

import faulthandler
import importlib
import json
import sys
from pathlib import Path

from . import core


def main(argv):
    prop, spec_path, out_path = argv
    faulthandler.enable()
    spec = json.loads(Path(spec_path).read_text())
    rec = core.Recorder(prop, shard=spec.get("name", ""), seed=spec.get("seed", 0),
                        tier=spec.get("tier", "quick"))
    try:
        core.bootstrap()
        mod = importlib.import_module(f"vmon.props.{prop.lower()}")
        if spec.get("replay") is not None:
            mod.replay(spec["replay"], rec)
        else:
            mod.run_shard(spec, rec)
    except BaseException as e:  # noqa: BLE001 - harness fault, reported as such
        rec.harness_error("worker", e)
    rec.dump(Path(out_path))


if __name__ == "__main__":
    main(sys.argv[1:])
